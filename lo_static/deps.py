"""Intra-procedural data dependence (flow-insensitive closure) in which in-place tensor methods and ``out=`` keywords
count as definitions of their target:  ``alpha.masked_fill_(has_converged, 0)`` makes ``alpha`` depend on
``has_converged``; ``torch.norm(residual, out=residual_norm)`` makes ``residual_norm`` depend on ``residual``."""
from __future__ import annotations

import ast
from typing import Dict, Iterable, List, Optional, Set

from .index import FunctionInfo, dotted, walk_body


def root_name(e: ast.AST) -> Optional[str]:
    while isinstance(e, (ast.Attribute, ast.Subscript, ast.Call, ast.Starred)):
        if isinstance(e, ast.Call):
            if isinstance(e.func, ast.Attribute):
                e = e.func.value
            else:
                return None
        elif isinstance(e, ast.Starred):
            e = e.value
        else:
            e = e.value
    return e.id if isinstance(e, ast.Name) else None


def reads(e: ast.AST) -> Set[str]:
    out: Set[str] = set()
    for x in ast.walk(e):
        if isinstance(x, ast.Name):
            out.add(x.id)
        elif isinstance(x, ast.Attribute):
            d = dotted(x)
            if d:
                out.add(d)
    return out


META_ATTRS = {"size", "shape", "dim", "ndim", "ndimension", "numel", "dtype", "device", "batch_shape", "matrix_shape"}


LIKE_FACTORIES = {"zeros_like", "ones_like", "empty_like"}


def value_reads(e: ast.AST) -> Set[str]:
    """Like reads(), but a name reached only through a metadata access (x.size(-1), x.shape, x.dtype ...) is not read
    for its VALUE."""
    out: Set[str] = set()
    stack = [e]
    while stack:
        x = stack.pop()
        if isinstance(x, ast.Attribute) and x.attr in META_ATTRS:
            continue
        if isinstance(x, ast.Call) and isinstance(x.func, ast.Attribute) and x.func.attr in LIKE_FACTORIES \
                and isinstance(x.func.value, ast.Name) and x.func.value.id == "torch" and x.args:
            # torch.zeros_like(t): only the shape / dtype / device of t are read
            stack.extend(x.args[1:])
            stack.extend(k.value for k in x.keywords)
            continue
        if isinstance(x, ast.Name):
            out.add(x.id)
        elif isinstance(x, ast.Attribute):
            d = dotted(x)
            if d:
                out.add(d)
        stack.extend(ast.iter_child_nodes(x))
    return out


def statement_defs(n: ast.AST, reads=None) -> List[tuple]:
    """[(defined name, set of names read)] for one ast node (not recursive)."""
    reads = reads or globals()["reads"]
    out = []
    if isinstance(n, ast.Assign):
        r = reads(n.value)
        for t in n.targets:
            for x in ast.walk(t):
                if isinstance(x, ast.Name) and isinstance(x.ctx, ast.Store):
                    out.append((x.id, r))
            rn = root_name(t) if isinstance(t, (ast.Subscript, ast.Attribute)) else None
            if rn:
                out.append((rn, r | reads(t)))
    elif isinstance(n, ast.AugAssign):
        rn = root_name(n.target)
        if rn:
            out.append((rn, reads(n.value) | {rn}))
    elif isinstance(n, ast.For):
        r = reads(n.iter)
        for x in ast.walk(n.target):
            if isinstance(x, ast.Name):
                out.append((x.id, r))
    elif isinstance(n, ast.Call):
        args = list(n.args) + [k.value for k in n.keywords if k.arg != "out"]
        r: Set[str] = set()
        for a in args:
            r |= reads(a)
        for k in n.keywords:
            if k.arg == "out":
                for x in ([k.value] if not isinstance(k.value, (ast.Tuple, ast.List)) else list(k.value.elts)):
                    rn = root_name(x)
                    if rn:
                        out.append((rn, r | (reads(x) - {rn})))
        if isinstance(n.func, ast.Attribute) and n.func.attr.endswith("_") and not n.func.attr.startswith("_"):
            rn = root_name(n.func.value)
            if rn:
                out.append((rn, r | reads(n.func.value)))
    return out


def dependence(fn: FunctionInfo, nodes: Optional[Iterable[ast.AST]] = None, reads=None) -> Dict[str, Set[str]]:
    """name -> everything it may depend on, over the statements of fn (or of the given sub-tree nodes)."""
    direct: Dict[str, Set[str]] = {}
    it = nodes if nodes is not None else walk_body(fn)
    for n in it:
        for name, r in statement_defs(n, reads):
            direct.setdefault(name, set()).update(r)
    closed = {k: set(v) for k, v in direct.items()}
    changed = True
    while changed:
        changed = False
        for k, v in closed.items():
            add: Set[str] = set()
            for d in list(v):
                if d in closed and d != k:
                    add |= closed[d]
            if not add <= v:
                v |= add
                changed = True
    return closed


def subtree_nodes(stmts: List[ast.stmt]) -> List[ast.AST]:
    out: List[ast.AST] = []
    for s in stmts:
        for x in ast.walk(s):
            out.append(x)
    return out


def forward_dependence(stmts: List[ast.stmt], reads=None) -> Dict[str, Set[str]]:
    """Dependence along ONE straight-line path, in statement order: a use sees the definitions made before it on the path
    (names not yet defined on the path stand for their value at the start of the iteration).  Weak updates (in-place
    methods, out= on an existing buffer that is also read, subscript stores) keep the previous dependences."""
    env: Dict[str, Set[str]] = {}

    def dep(n: str) -> Set[str]:
        return env.get(n, {n})

    for st in stmts:
        order = []
        for x in ast.walk(st):
            for name, rd_ in statement_defs(x, reads):
                order.append((getattr(x, "lineno", 0), getattr(x, "col_offset", 0), x, name, rd_))
        # inner calls of a chain (a.mul_(b).add_(c)) evaluate left to right: sort by position of the END of the call
        order.sort(key=lambda t: (getattr(t[2], "end_lineno", t[0]), getattr(t[2], "end_col_offset", t[1])))
        for _, _, x, name, rd_ in order:
            new: Set[str] = set()
            for r in rd_:
                new |= dep(r) | {r}
            strong = isinstance(x, ast.Assign) and any(isinstance(t, ast.Name) and t.id == name for t in x.targets)
            env[name] = new if strong else (dep(name) | new)
    return env



# ------------------------------------------------------------------------------------------------
# flow-sensitive variant: reaching definitions over the statement CFG
class ReachingDefs:
    """Reaching definitions on the statement CFG of one function.  A plain rebinding ``x = e`` kills earlier definitions
    of ``x``; in-place methods, ``out=``, subscript / attribute stores and augmented assignments are weak updates (they
    read the previous value).  ``closure(node, names)`` = every name / dotted attribute the VALUE of the given names
    may depend on at that node (free names - parameters, globals, ``self.attr`` - are the leaves)."""

    def __init__(self, fn: FunctionInfo, reads=None):
        from .cfg import CFG

        self.fn = fn
        self.reads = reads or globals()["reads"]
        self.cfg = CFG(fn)
        self.defs: Dict[int, List[tuple]] = {}  # node -> [(name, readset, strong)]
        for nid, node in self.cfg.nodes.items():
            a = node.ast
            out: List[tuple] = []
            if a is None:
                pass
            elif node.kind == "iter" and isinstance(a, ast.For):
                r = self.reads(a.iter)
                for x in ast.walk(a.target):
                    if isinstance(x, ast.Name):
                        out.append((x.id, r, True))
            elif node.kind == "stmt" and not isinstance(a, (ast.FunctionDef, ast.AsyncFunctionDef, ast.ClassDef)):
                for x in ast.walk(a):
                    for name, r in statement_defs(x, self.reads):
                        strong = isinstance(x, ast.Assign) and any(isinstance(t, ast.Name) and t.id == name for t in x.targets) or (
                            isinstance(x, ast.Assign) and any(isinstance(t, (ast.Tuple, ast.List)) and any(
                                isinstance(e, ast.Name) and e.id == name for e in ast.walk(t)) for t in x.targets))
                        out.append((name, r if strong else (r | {name}), strong))
            self.defs[nid] = out
        # fixpoint
        g = self.cfg.g
        self.IN: Dict[int, Dict[str, frozenset]] = {n: {} for n in g.nodes}
        OUT: Dict[int, Dict[str, frozenset]] = {n: {} for n in g.nodes}
        work = list(g.nodes)
        while work:
            n = work.pop()
            inn: Dict[str, set] = {}
            for p in g.predecessors(n):
                for k, v in OUT[p].items():
                    inn.setdefault(k, set()).update(v)
            inn_f = {k: frozenset(v) for k, v in inn.items()}
            self.IN[n] = inn_f
            out = dict(inn_f)
            for i, (name, r, strong) in enumerate(self.defs.get(n, [])):
                d = frozenset({(n, i)})
                out[name] = d if strong else (out.get(name, frozenset()) | d)
            if out != OUT[n]:
                OUT[n] = out
                work.extend(g.successors(n))

    def node_of(self, a: ast.AST) -> Optional[int]:
        nd = self.cfg.node_of(a)
        return nd.id if nd is not None else None

    def closure(self, nid: int, names: Iterable[str]) -> Set[str]:
        out: Set[str] = set()
        seen: Set[tuple] = set()
        work = [(nm, nid, None) for nm in names]
        while work:
            nm, at, upto = work.pop()
            out.add(nm)
            base = nm.split(".")[0]
            cands = set(self.IN.get(at, {}).get(nm, frozenset())) | (set(self.IN.get(at, {}).get(base, frozenset())) if base != nm else set())
            # definitions made earlier in the same statement node (e.g. `a = f(x); ...` never happens inside one node) are not needed
            for (m, i) in cands:
                if (m, i) in seen:
                    continue
                seen.add((m, i))
                name, r, strong = self.defs[m][i]
                for x in r:
                    work.append((x, m, None))
        return out
