"""The constructor record of an existing operator is never mutated.

``LinearOperator.__init__`` stores what the operator was built from in ``_args`` (a tuple) and in two dictionaries
(found from the code: every attribute of ``self`` that ``__init__`` binds to a dict / OrderedDict and fills from
``kwargs``).  Every copy / conversion / rebuild reads them.  Other objects keep REFERENCES to these dictionaries (the
representation tree).  Rule: outside ``LinearOperator.__init__`` no statement mutates such a dictionary - directly,
through an attribute that was bound to it without a copy, or through a local alias of either.
"""
from __future__ import annotations

import ast
from typing import Dict, List, Optional, Set, Tuple

from .index import FunctionInfo, ProgramIndex, dotted, norm, short, walk_body

MUTATORS = {"update", "pop", "popitem", "clear", "setdefault", "append", "extend", "insert", "remove", "sort", "reverse",
            "move_to_end", "__setitem__", "__delitem__"}
COPIES = {"dict", "OrderedDict", "list", "tuple", "copy", "deepcopy", "sorted"}


def _dict_display(v: ast.AST) -> bool:
    return isinstance(v, (ast.Dict, ast.DictComp)) or (
        isinstance(v, ast.Call) and (dotted(v.func) or "").split(".")[-1] in ("dict", "OrderedDict"))


def _dict_slots(idx: ProgramIndex, base, fn_node: ast.AST, v: ast.AST, depth: int = 0) -> List[bool]:
    """Per returned slot (one slot for a plain value): is the value a dictionary built here?  Follows locals of the function and
    helpers of the base class / its module that build and return the dictionaries."""
    if isinstance(v, ast.Tuple):
        return [all(_dict_slots(idx, base, fn_node, x, depth)) for x in v.elts]
    if _dict_display(v):
        return [True]
    if isinstance(v, ast.Name):
        binds = [n.value for n in ast.walk(fn_node) if isinstance(n, ast.Assign) and len(n.targets) == 1
                 and isinstance(n.targets[0], ast.Name) and n.targets[0].id == v.id]
        return [bool(binds) and all(_dict_display(b) for b in binds)]
    if isinstance(v, ast.Call) and depth < 3:
        f = v.func
        callee = None
        if isinstance(f, ast.Attribute) and isinstance(f.value, ast.Name) and f.value.id in ("self", "cls"):
            callee = idx.resolve_method(base, f.attr)
        elif isinstance(f, ast.Attribute) and isinstance(f.value, ast.Name) and f.value.id == base.name:
            callee = idx.resolve_method(base, f.attr)
        elif isinstance(f, ast.Name):
            q = idx.resolve_name(base.module, f.id)
            callee = idx.func_by_qual.get(q) if q else None
        if callee is not None:
            rets = [n.value for n in walk_body(callee) if isinstance(n, ast.Return) and n.value is not None]
            slots = [_dict_slots(idx, base, callee.node, r, depth + 1) for r in rets]
            if slots and len({len(x) for x in slots}) == 1:
                return [all(col) for col in zip(*slots)]
    return [False]


def record_containers(idx: ProgramIndex) -> Set[str]:
    base = idx.operator_base()
    init = base.methods.get("__init__")
    out: Set[str] = set()
    if init is None:
        return out
    for n in walk_body(init):
        if not (isinstance(n, ast.Assign) and len(n.targets) == 1):
            continue
        t = n.targets[0]
        tgts = list(t.elts) if isinstance(t, ast.Tuple) else [t]
        if not all(isinstance(x, ast.Attribute) and isinstance(x.value, ast.Name) and x.value.id == "self" for x in tgts):
            continue
        slots = _dict_slots(idx, base, init.node, n.value)
        if len(slots) == len(tgts):
            out.update(x.attr for x, ok in zip(tgts, slots) if ok)
    return out


def _is_record_ref(e: ast.AST, records: Set[str], alias_attrs: Set[str]) -> bool:
    """e is `<obj>.<record attr>` or `self.<alias attr>` - a reference, not a copy."""
    return isinstance(e, ast.Attribute) and (e.attr in records or e.attr in alias_attrs)


def find_record_mutations(idx: ProgramIndex) -> Tuple[List[Tuple[FunctionInfo, ast.AST, str]], Dict[str, int]]:
    records = record_containers(idx)
    base = idx.operator_base()
    # attributes of ANY class bound (anywhere) to a reference of a record container
    alias_attrs: Set[str] = set()
    changed = True
    while changed:
        changed = False
        for fn in idx.functions:
            for n in walk_body(fn):
                if isinstance(n, ast.Assign) and len(n.targets) == 1 and isinstance(n.targets[0], ast.Attribute) \
                        and _is_record_ref(n.value, records, alias_attrs) and n.targets[0].attr not in records \
                        and n.targets[0].attr not in alias_attrs:
                    alias_attrs.add(n.targets[0].attr)
                    changed = True
    out: List[Tuple[FunctionInfo, ast.AST, str]] = []
    stats = {"record_containers": len(records), "alias_attributes": len(alias_attrs), "references": 0}
    for fn in idx.functions:
        if fn.cls is base and fn.name == "__init__":
            continue
        local: Set[str] = set()
        for n in walk_body(fn):
            if isinstance(n, ast.Assign) and len(n.targets) == 1 and isinstance(n.targets[0], ast.Name) \
                    and _is_record_ref(n.value, records, alias_attrs):
                local.add(n.targets[0].id)

        def is_ref(e: ast.AST) -> bool:
            return _is_record_ref(e, records, alias_attrs) or (isinstance(e, ast.Name) and e.id in local)

        for n in walk_body(fn):
            if isinstance(n, ast.Attribute) and (n.attr in records or n.attr in alias_attrs):
                stats["references"] += 1
            if isinstance(n, ast.Call) and isinstance(n.func, ast.Attribute) and n.func.attr in MUTATORS and is_ref(n.func.value):
                out.append((fn, n, f"{norm(n.func.value)}.{n.func.attr}(...)"))
            elif isinstance(n, (ast.Assign, ast.AugAssign)):
                tgts = n.targets if isinstance(n, ast.Assign) else [n.target]
                for t in tgts:
                    if isinstance(t, ast.Subscript) and is_ref(t.value):
                        out.append((fn, n, f"{norm(t.value)}[...] = ..."))
            elif isinstance(n, ast.Delete):
                for t in n.targets:
                    if isinstance(t, ast.Subscript) and is_ref(t.value):
                        out.append((fn, n, f"del {norm(t.value)}[...]"))
    stats["records"] = sorted(records)  # type: ignore
    stats["aliases"] = sorted(alias_attrs)  # type: ignore
    return out, stats


def report_record_mutations(idx: ProgramIndex, rep, prop: str, rule: str) -> None:
    from .report import Finding

    rep.rule(rule, "the constructor record (_args / kwargs dictionaries) of an existing operator is never mutated", floor=5)
    muts, stats = find_record_mutations(idx)
    rep.analysed[f"{rule}_record_containers"] = stats
    if stats["record_containers"] < 2:
        rep.error("LinearOperator.__init__ no longer binds its keyword record to dictionaries (anchor vanished)")
    for _ in range(int(stats["references"])):
        rep.count(rule)
    for fn, node, what in muts:
        who = fn.qualname.replace("linear_operator.", "", 1)
        rep.bad(rule, Finding(prop, rule, who, what,
                              f"{who}: `{short(node, 70)}` mutates a dictionary that IS (not a copy of) the keyword record of an "
                              "existing operator: every later clone / detach / to / representation_tree rebuild of that operator "
                              "uses the modified record, i.e. denotes a different matrix (and the effect depends on call order)",
                              fn.loc(node)))


# ------------------------------------------------------------------------------------------------
# container-valued denotation attributes (self.sizes = list(sizes), self.params = {...}) are part of what the operator
# denotes: a method that mutates one - directly or through an un-copied local alias - changes an EXISTING operator
CONTAINER_CTORS = ("list(", "[", "dict(", "{", "OrderedDict(", "set(", "sorted(")


def find_denotation_container_mutations(idx: ProgramIndex):
    from .ctor import ctor_record

    out = []
    n_attrs = 0
    for c in idx.operator_classes():
        rec = ctor_record(idx, c)
        if rec.init is None:
            continue
        cont = {a for a, src in rec.attr_sources.items() if src and rec.attr_exprs.get(a, "").lstrip().startswith(CONTAINER_CTORS)}
        if not cont:
            continue
        n_attrs += len(cont)
        for mname, fn in c.methods.items():
            if mname == "__init__" or fn.is_staticmethod() or fn.is_classmethod() or not fn.params():
                continue
            sn = fn.params()[0]

            def is_attr(e):
                return isinstance(e, ast.Attribute) and isinstance(e.value, ast.Name) and e.value.id == sn and e.attr in cont

            alias = {n.targets[0].id: n.value.attr for n in walk_body(fn)
                     if isinstance(n, ast.Assign) and len(n.targets) == 1 and isinstance(n.targets[0], ast.Name) and is_attr(n.value)}
            # an alias that is also re-bound to something else is not tracked (flow-insensitive; stays silent)
            for nm in list(alias):
                defs = [n for n in walk_body(fn) if isinstance(n, ast.Assign) and any(isinstance(t, ast.Name) and t.id == nm for t in n.targets)]
                if len(defs) != 1:
                    del alias[nm]

            def held(e):
                if is_attr(e):
                    return e.attr
                if isinstance(e, ast.Name) and e.id in alias:
                    return alias[e.id]
                return None

            for n in walk_body(fn):
                hit = None
                if isinstance(n, ast.Call) and isinstance(n.func, ast.Attribute) and n.func.attr in MUTATORS and held(n.func.value):
                    hit = (held(n.func.value), f"{norm(n.func.value)}.{n.func.attr}(...)")
                elif isinstance(n, (ast.Assign, ast.AugAssign)):
                    tgts = n.targets if isinstance(n, ast.Assign) else [n.target]
                    flat = []
                    for t in tgts:
                        flat += list(t.elts) if isinstance(t, (ast.Tuple, ast.List)) else [t]
                    for t in flat:
                        if isinstance(t, ast.Subscript) and held(t.value):
                            hit = (held(t.value), f"{norm(t.value)}[...] = ...")
                elif isinstance(n, ast.Delete):
                    for t in n.targets:
                        if isinstance(t, ast.Subscript) and held(t.value):
                            hit = (held(t.value), f"del {norm(t.value)}[...]")
                if hit:
                    out.append((c, fn, n, hit[0], hit[1]))
    return out, n_attrs


def report_denotation_container_mutations(idx: ProgramIndex, rep, prop: str, rule: str) -> None:
    from .report import Finding

    muts, n_attrs = find_denotation_container_mutations(idx)
    rep.count(rule, n_attrs)
    for c, fn, node, attr, what in muts:
        who = f"{c.name}.{fn.name}"
        rep.bad(rule, Finding(prop, rule, who, what,
                              f"{who}: `{short(node, 70)}` mutates self.{attr}, a container the constructor builds from its arguments "
                              "(directly or through a local alias that is not a copy): the EXISTING operator changes shape / "
                              "parameters, so it denotes another matrix after the call than before", fn.loc(node)))
