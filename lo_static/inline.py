"""AST-level inlining of same-module helper calls, so that the CFG / dependence rules see one body whether or not a
maintainer has extracted (or re-inlined) a helper.  Nothing is executed.

A call ``f(a, b, k=c)`` is inlined when
  * ``f`` resolves to a function defined at module level in the SAME module as the caller (any decorator is ignored:
    ``@torch.jit.script`` helpers are ordinary python for this purpose),
  * it occurs as a whole statement (``f(...)``), as the value of an assignment (``x = f(...)``, ``x, y = f(...)``) or of
    a return (``return f(...)``),
  * the callee has no ``*args`` / ``**kwargs``, no nested ``def`` (lambdas are renamed through) and no ``yield``, and - unless the call
    is in ``return`` position - all its ``return`` statements sit at the very end of its body (a single exit).

Binding: a parameter whose argument is a plain name is RENAMED to that name (so that an in-place update of the parameter
is an in-place update of the caller's variable); any other argument is bound by ``param = <expr>``.  Callee locals are
prefixed so that they cannot capture the caller's names.  Statements keep the line numbers of the helper.
"""
from __future__ import annotations

import ast
import copy
import dataclasses
from typing import Dict, List, Optional, Set

from .index import FunctionInfo, ProgramIndex


class _Rename(ast.NodeTransformer):
    def __init__(self, mapping: Dict[str, str]):
        self.mapping = mapping

    def visit_Name(self, node: ast.Name):
        if node.id in self.mapping:
            return ast.copy_location(ast.Name(id=self.mapping[node.id], ctx=node.ctx), node)
        return node

    def visit_FunctionDef(self, node):  # do not descend into nested scopes (none are expected)
        return node

    visit_AsyncFunctionDef = visit_FunctionDef

    def visit_Lambda(self, node: ast.Lambda):
        # a lambda closes over the enclosing names: rename inside its body, except what its own parameters shadow
        a = node.args
        own = {x.arg for x in list(a.posonlyargs) + list(a.args) + list(a.kwonlyargs)} | (
            {a.vararg.arg} if a.vararg else set()) | ({a.kwarg.arg} if a.kwarg else set())
        sub = _Rename({k: v for k, v in self.mapping.items() if k not in own})
        node.body = sub.visit(node.body)
        return node


def _assigned_names(body: List[ast.stmt]) -> Set[str]:
    out: Set[str] = set()
    for st in body:
        for n in ast.walk(st):
            if isinstance(n, ast.Name) and isinstance(n.ctx, (ast.Store, ast.Del)):
                out.add(n.id)
    return out


def _inlinable(callee: ast.FunctionDef, tail_position: bool) -> bool:
    a = callee.args
    if a.vararg or a.kwarg or a.posonlyargs:
        return False
    for n in ast.walk(callee):
        if n is not callee and isinstance(n, (ast.FunctionDef, ast.AsyncFunctionDef, ast.Yield, ast.YieldFrom,
                                             ast.Global, ast.Nonlocal)):
            return False
    if tail_position:
        return True
    rets = [n for n in ast.walk(callee) if isinstance(n, ast.Return)]
    if not rets:
        return True
    # every return must be reachable through if/else nesting only (single-exit conversion handles those)
    ok: Set[int] = set()

    def mark(stmts):
        for st in stmts:
            if isinstance(st, ast.Return):
                ok.add(id(st))
            elif isinstance(st, ast.If):
                mark(st.body)
                mark(st.orelse)
    mark(callee.body)
    return all(id(r) in ok for r in rets)


def _always_returns(stmts: List[ast.stmt]) -> bool:
    if not stmts:
        return False
    last = stmts[-1]
    if isinstance(last, (ast.Return, ast.Raise)):
        return True
    if isinstance(last, ast.If):
        return _always_returns(last.body) and _always_returns(last.orelse)
    return False


_RET = "__inl_ret__"


def _single_exit(stmts: List[ast.stmt]) -> List[ast.stmt]:
    """Rewrite a body whose returns sit inside if/else nests into one that assigns a result variable and falls through:
    ``if c: A; return x`` followed by REST becomes ``if c: A; R = x  else: REST'``; a trailing ``return e`` stays last."""
    out: List[ast.stmt] = []
    for i, st in enumerate(stmts):
        rest = stmts[i + 1:]
        if isinstance(st, ast.If) and any(isinstance(x, ast.Return) for x in ast.walk(st)):
            b_ret, o_ret = _always_returns(st.body), _always_returns(st.orelse)
            if b_ret and o_ret:
                new = ast.If(test=st.test, body=_single_exit(st.body), orelse=_single_exit(st.orelse))
                out.append(ast.copy_location(new, st))
                return _hoist_return(out)
            if b_ret:
                new = ast.If(test=st.test, body=_single_exit(st.body), orelse=_single_exit(st.orelse + rest) or [ast.Pass()])
                out.append(ast.copy_location(new, st))
                return _hoist_return(out)
            if o_ret:
                new = ast.If(test=st.test, body=_single_exit(st.body + rest) or [ast.Pass()], orelse=_single_exit(st.orelse))
                out.append(ast.copy_location(new, st))
                return _hoist_return(out)
        out.append(st)
    return out


def _hoist_return(stmts: List[ast.stmt]) -> List[ast.stmt]:
    """The last statement is an if/else both arms of which end in `return e` (or raise): replace those returns by
    assignments to one result variable and append a single `return <var>`."""
    last = stmts[-1]
    found = [False]

    def repl(body: List[ast.stmt]) -> List[ast.stmt]:
        if not body:
            return body
        tl = body[-1]
        if isinstance(tl, ast.Return):
            found[0] = True
            val = tl.value if tl.value is not None else ast.Constant(value=None)
            a = ast.Assign(targets=[ast.Name(id=_RET, ctx=ast.Store())], value=val)
            return body[:-1] + [ast.copy_location(a, tl)]
        if isinstance(tl, ast.If):
            tl.body, tl.orelse = repl(tl.body), repl(tl.orelse)
        return body

    if isinstance(last, ast.If):
        last.body, last.orelse = repl(last.body), repl(last.orelse)
        if found[0]:
            stmts = stmts + [ast.copy_location(ast.Return(value=ast.Name(id=_RET, ctx=ast.Load())), last)]
    return stmts


class Inliner:
    def __init__(self, idx: ProgramIndex, fn: FunctionInfo, max_depth: int = 3, only: Optional[Set[str]] = None):
        self.idx = idx
        self.fn = fn
        self.mod = fn.module
        self.max_depth = max_depth
        self.only = only
        self.counter = 0
        self.inlined: List[str] = []

    def callee_of(self, call: ast.AST) -> Optional[FunctionInfo]:
        if not (isinstance(call, ast.Call) and isinstance(call.func, ast.Name)):
            return None
        f = self.mod.functions.get(call.func.id)
        if f is None or f is self.fn or not isinstance(f.node, ast.FunctionDef):
            return None
        if self.only is not None and f.name not in self.only:
            return None
        return f

    def expand(self, call: ast.Call, callee: FunctionInfo, targets: Optional[List[ast.expr]], tail: bool, depth: int) -> Optional[List[ast.stmt]]:
        node: ast.FunctionDef = callee.node  # type: ignore
        if not _inlinable(node, tail):
            return None
        params = [x.arg for x in node.args.args] + [x.arg for x in node.args.kwonlyargs]
        dfl: Dict[str, ast.expr] = {}
        pos = node.args.args
        for p, d in zip(pos[len(pos) - len(node.args.defaults):], node.args.defaults):
            dfl[p.arg] = d
        for p, d in zip(node.args.kwonlyargs, node.args.kw_defaults):
            if d is not None:
                dfl[p.arg] = d
        if any(isinstance(a, ast.Starred) for a in call.args) or any(k.arg is None for k in call.keywords):
            return None
        actual: Dict[str, ast.expr] = {}
        for p, a in zip([x.arg for x in node.args.args], call.args):
            actual[p] = a
        if len(call.args) > len(node.args.args):
            return None
        for k in call.keywords:
            if k.arg not in params or k.arg in actual:
                return None
            actual[k.arg] = k.value
        for p in params:
            if p not in actual:
                if p not in dfl:
                    return None
                actual[p] = dfl[p]
        self.counter += 1
        tag = f"_inl{self.counter}_"
        body = copy.deepcopy([s for s in node.body if not (isinstance(s, ast.Expr) and isinstance(s.value, ast.Constant))])
        assigned = _assigned_names(body)
        mapping: Dict[str, str] = {}
        prologue: List[ast.stmt] = []
        for p in params:
            a = actual[p]
            if isinstance(a, ast.Name) and not (p in assigned and a.id != p and False):
                mapping[p] = a.id
            else:
                mapping[p] = tag + p
                st = ast.Assign(targets=[ast.Name(id=tag + p, ctx=ast.Store())], value=copy.deepcopy(a))
                ast.copy_location(st, call)
                ast.fix_missing_locations(st)
                prologue.append(st)
        # a callee local that is handed straight back to a caller variable IS that variable: rename instead of aliasing
        # (x, n, z = helper(...) with `return x_, n_, z_` must not leave `n = _inl_n_` behind)
        if not tail and targets is not None and len(targets) == 1 and body and isinstance(body[-1], ast.Return) and body[-1].value is not None:
            tv, rv = targets[0], body[-1].value
            pairs = []
            if isinstance(tv, ast.Name) and isinstance(rv, ast.Name):
                pairs = [(tv, rv)]
            elif isinstance(tv, (ast.Tuple, ast.List)) and isinstance(rv, ast.Tuple) and len(tv.elts) == len(rv.elts):
                pairs = [(t_, r_) for t_, r_ in zip(tv.elts, rv.elts) if isinstance(t_, ast.Name) and isinstance(r_, ast.Name)]
            taken = set(mapping.values())
            for t_, r_ in pairs:
                if r_.id in assigned and r_.id not in params and r_.id not in mapping and t_.id not in taken:
                    mapping[r_.id] = t_.id
                    taken.add(t_.id)
        for nm in assigned:
            if nm not in mapping:
                mapping[nm] = tag + nm
        ren = _Rename(mapping)
        body = [ren.visit(s) for s in body]
        if not tail:
            body = _single_exit(body)
            body = [_Rename({_RET: tag + "ret"}).visit(s) for s in body]
        out: List[ast.stmt] = prologue + body
        if not tail:
            if out and isinstance(out[-1], ast.Return):
                ret = out.pop()
                if targets is not None and ret.value is not None:
                    tv, rv = targets[0], ret.value
                    if len(targets) == 1 and isinstance(tv, (ast.Tuple, ast.List)) and isinstance(rv, ast.Tuple) and len(tv.elts) == len(rv.elts):
                        for t_, r_ in zip(tv.elts, rv.elts):
                            if isinstance(t_, ast.Name) and isinstance(r_, ast.Name) and t_.id == r_.id:
                                continue
                            st = ast.Assign(targets=[copy.deepcopy(t_)], value=r_)
                            ast.copy_location(st, ret)
                            out.append(st)
                    elif len(targets) == 1 and isinstance(tv, ast.Name) and isinstance(rv, ast.Name) and tv.id == rv.id:
                        pass
                    else:
                        st = ast.Assign(targets=copy.deepcopy(targets), value=ret.value)
                        ast.copy_location(st, ret)
                        out.append(st)
                elif ret.value is not None:
                    st2 = ast.Expr(value=ret.value)
                    ast.copy_location(st2, ret)
                    out.append(st2)
            elif targets is not None:
                st = ast.Assign(targets=copy.deepcopy(targets), value=ast.Constant(value=None))
                ast.copy_location(st, call)
                out.append(st)
        if not out:
            out = [ast.copy_location(ast.Pass(), call)]
        for s in out:
            ast.fix_missing_locations(s)
        self.inlined.append(callee.name)
        if depth < self.max_depth:
            out = self.block(out, depth + 1)
        return out

    def test_expr(self, e: ast.expr, depth: int = 0) -> ast.expr:
        """The test of an ``if`` with calls of expression-bodied helpers (``def _rule(a, b): return <expr>``) replaced by the
        expression - only at the top of the test, under ``not`` and as operands of ``and`` / ``or`` (where the helper call is
        evaluated exactly when the expression would be), and only for name / constant / attribute arguments."""
        if depth > 3:
            return e
        if isinstance(e, ast.UnaryOp) and isinstance(e.op, ast.Not):
            e.operand = self.test_expr(e.operand, depth)
            return e
        if isinstance(e, ast.BoolOp):
            e.values = [self.test_expr(v, depth) for v in e.values]
            return e
        c = self.callee_of(e)
        if c is None:
            return e
        node: ast.FunctionDef = c.node  # type: ignore
        body = [s_ for s_ in node.body if not (isinstance(s_, ast.Expr) and isinstance(s_.value, ast.Constant))]
        a = node.args
        if len(body) != 1 or not isinstance(body[0], ast.Return) or body[0].value is None or a.vararg or a.kwarg or a.posonlyargs \
                or any(isinstance(x, (ast.Lambda, ast.NamedExpr, ast.ListComp, ast.GeneratorExp, ast.SetComp, ast.DictComp))
                       for x in ast.walk(body[0].value)):
            return e
        params = [x.arg for x in a.args] + [x.arg for x in a.kwonlyargs]
        actual: Dict[str, ast.expr] = {}
        if any(isinstance(x, ast.Starred) for x in e.args) or any(k.arg is None for k in e.keywords) or len(e.args) > len(a.args):
            return e
        for p_, v in zip([x.arg for x in a.args], e.args):
            actual[p_] = v
        for k in e.keywords:
            if k.arg not in params or k.arg in actual:
                return e
            actual[k.arg] = k.value
        dfl = dict(zip([x.arg for x in a.args][len(a.args) - len(a.defaults):], a.defaults))
        dfl.update({x.arg: d for x, d in zip(a.kwonlyargs, a.kw_defaults) if d is not None})
        for p_ in params:
            if p_ not in actual:
                if p_ not in dfl:
                    return e
                actual[p_] = dfl[p_]
        if not all(isinstance(v, (ast.Name, ast.Constant, ast.Attribute)) for v in actual.values()):
            return e
        sub = copy.deepcopy(body[0].value)

        class S(ast.NodeTransformer):
            def visit_Name(self, n: ast.Name):
                return copy.deepcopy(actual[n.id]) if n.id in actual and isinstance(n.ctx, ast.Load) else n

        sub = S().visit(sub)
        ast.copy_location(sub, e)
        for x in ast.walk(sub):
            ast.copy_location(x, e)
        self.inlined.append(c.name)
        return self.test_expr(sub, depth + 1)

    def block(self, body: List[ast.stmt], depth: int = 0) -> List[ast.stmt]:
        out: List[ast.stmt] = []
        for st in body:
            rep = None
            if isinstance(st, ast.Expr):
                c = self.callee_of(st.value)
                if c is not None:
                    rep = self.expand(st.value, c, None, False, depth)
            elif isinstance(st, ast.Assign):
                c = self.callee_of(st.value)
                if c is not None:
                    rep = self.expand(st.value, c, st.targets, False, depth)
            elif isinstance(st, ast.Return) and st.value is not None:
                c = self.callee_of(st.value)
                if c is not None:
                    rep = self.expand(st.value, c, None, True, depth)
                    if rep is not None and not any(isinstance(x, ast.Return) for s in rep for x in ast.walk(s)):
                        rep = rep + [ast.copy_location(ast.Return(value=ast.Constant(value=None)), st)]
            if rep is not None:
                out.extend(rep)
                continue
            if isinstance(st, ast.If):
                st.test = self.test_expr(st.test)
            for fld in ("body", "orelse", "finalbody"):
                b = getattr(st, fld, None)
                if isinstance(b, list) and b and isinstance(b[0], ast.stmt):
                    setattr(st, fld, self.block(b, depth))
            for h in getattr(st, "handlers", []) or []:
                h.body = self.block(h.body, depth)
            out.append(st)
        return out


def inline_helpers(idx: ProgramIndex, fn: FunctionInfo, max_depth: int = 3, only: Optional[Set[str]] = None):
    """(FunctionInfo with helper calls inlined, list of inlined helper names).  The original is not modified."""
    if not isinstance(fn.node, ast.FunctionDef):
        return fn, []
    node = copy.deepcopy(fn.node)
    inl = Inliner(idx, fn, max_depth, only)
    node.body = inl.block(node.body)
    ast.fix_missing_locations(node)
    return dataclasses.replace(fn, node=node), inl.inlined
