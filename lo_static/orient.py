"""Orientation tags of triangular factors: a finite-domain abstract interpretation.

Tags:  L (lower)  U (upper)  D (diagonal: both)  T (unknown).
Atoms: the booleans ``upper`` (parameter) and ``self.upper`` (attribute).  A function is evaluated once per assignment
of the atoms that occur in it (at most 4); tests that are boolean expressions over the atoms select one branch,
every other test takes both branches (join; disagreeing tags become T).  Nothing is executed: expressions are
mapped to tags by the rules below.
"""
from __future__ import annotations

import ast
import itertools
from dataclasses import dataclass, field
from typing import Callable, Dict, List, Optional, Tuple

from .index import ClassInfo, FunctionInfo, ProgramIndex, dotted, norm, short

L, U, D, T = "L", "U", "D", "T"
FLIP = {L: U, U: L, D: D, T: T}

KEEP_METHODS = {"inverse", "to_dense", "contiguous", "clone", "repeat", "expand", "_expand_batch", "unsqueeze", "squeeze",
                "detach", "to", "type", "double", "float", "half", "cpu", "cuda", "evaluate_kernel", "_unsqueeze_batch",
                "_permute_batch", "view", "reshape", "requires_grad_", "abs", "clamp_min", "sqrt", "_getitem"}
FLIP_METHODS = {"_transpose_nonbatch", "t", "mT_"}
FLIP_ATTRS = {"mT", "T", "mH"}
KEEP_ATTRS = {"_tensor", "tensor", "base_linear_op", "data"}
WRAPPERS = {"DenseLinearOperator", "to_linear_operator", "BlockDiagLinearOperator", "BlockInterleavedLinearOperator",
            "BatchRepeatLinearOperator", "to_dense"}
DIAG_CLASSES = {"DiagLinearOperator", "ConstantDiagLinearOperator", "IdentityLinearOperator",
                "KroneckerProductDiagLinearOperator"}
TRI_CLASSES = {"TriangularLinearOperator", "KroneckerProductTriangularLinearOperator"}


def join(a: str, b: str) -> str:
    if a == b:
        return a
    if a == D:
        return b if b in (L, U) else T
    if b == D:
        return a if a in (L, U) else T
    return T


def tag_of_bool(b: Optional[bool]) -> str:
    return T if b is None else (U if b else L)


@dataclass
class SinkEvent:
    fn: FunctionInfo
    node: ast.AST
    what: str  # which API consumes the orientation
    expected: Optional[bool]  # value of the upper= argument under this assignment (None: undecidable)
    actual: str  # tag of the factor passed
    sigma: Dict[str, bool]


@dataclass
class Result:
    returns: List[Tuple[Dict[str, bool], str, ast.AST]] = field(default_factory=list)  # (sigma, tag, node)
    raises_only: bool = False
    sinks: List[SinkEvent] = field(default_factory=list)
    atoms: List[str] = field(default_factory=list)


class Evaluator:
    def __init__(self, idx: ProgramIndex, fn: FunctionInfo):
        self.idx = idx
        self.fn = fn
        self.cls: Optional[ClassInfo] = fn.cls
        self.self_name = fn.params()[0] if fn.cls is not None and fn.params() and not fn.is_staticmethod() else None
        self.sinks: List[SinkEvent] = []

    # ------------------------------------------------------------------ class invariants
    def self_tag(self, sigma) -> str:
        if self.cls is None:
            return T
        names = {k.name for k in self.cls.mro}
        if names & DIAG_CLASSES:
            return D
        if names & TRI_CLASSES:
            return tag_of_bool(sigma.get("self.upper"))
        return T

    def self_attr_tag(self, attr: str, sigma) -> str:
        if self.cls is None:
            return T
        names = {k.name for k in self.cls.mro}
        if "CholLinearOperator" in names and attr == "root":
            return tag_of_bool(sigma.get("self.upper"))
        if names & TRI_CLASSES and attr in ("_tensor",):
            return self.self_tag(sigma)
        if names & DIAG_CLASSES and attr in ("_diag", "diag_values"):
            return D
        return T

    # ------------------------------------------------------------------ booleans over atoms
    def beval(self, e: ast.AST, sigma, env_b: Dict[str, Optional[bool]]) -> Optional[bool]:
        if isinstance(e, ast.Constant) and isinstance(e.value, bool):
            return e.value
        if isinstance(e, ast.Name):
            if e.id in env_b:
                return env_b[e.id]
            return sigma.get(e.id)
        if isinstance(e, ast.Attribute):
            d = dotted(e)
            if d is not None and self.self_name and d == f"{self.self_name}.upper":
                return sigma.get("self.upper")
            return None
        if isinstance(e, ast.UnaryOp) and isinstance(e.op, ast.Not):
            v = self.beval(e.operand, sigma, env_b)
            return None if v is None else (not v)
        if isinstance(e, ast.BoolOp):
            vals = [self.beval(v, sigma, env_b) for v in e.values]
            if isinstance(e.op, ast.And):
                if any(v is False for v in vals):
                    return False
                return True if all(v is True for v in vals) else None
            if any(v is True for v in vals):
                return True
            return False if all(v is False for v in vals) else None
        if isinstance(e, ast.Compare) and len(e.ops) == 1:
            a = self.beval(e.left, sigma, env_b)
            b = self.beval(e.comparators[0], sigma, env_b)
            if a is None or b is None:
                return None
            if isinstance(e.ops[0], (ast.Eq, ast.Is)):
                return a == b
            if isinstance(e.ops[0], (ast.NotEq, ast.IsNot)):
                return a != b
        return None

    # ------------------------------------------------------------------ tags of expressions
    def _kw(self, call: ast.Call, name: str, pos: Optional[int] = None) -> Optional[ast.AST]:
        for k in call.keywords:
            if k.arg == name:
                return k.value
        if pos is not None and len(call.args) > pos and not any(isinstance(a, ast.Starred) for a in call.args[:pos + 1]):
            return call.args[pos]
        return None

    def upper_arg(self, call: ast.Call, sigma, env_b, pos: Optional[int] = None, default: Optional[bool] = False):
        a = self._kw(call, "upper", pos)
        if a is None:
            return default
        return self.beval(a, sigma, env_b)

    def tag(self, e: ast.AST, sigma, env: Dict[str, str], env_b) -> str:
        if isinstance(e, ast.Name):
            if self.self_name and e.id == self.self_name:
                return self.self_tag(sigma)
            return env.get(e.id, T)
        if isinstance(e, ast.Attribute):
            if isinstance(e.value, ast.Name) and self.self_name and e.value.id == self.self_name:
                return self.self_attr_tag(e.attr, sigma)
            base = self.tag(e.value, sigma, env, env_b)
            if e.attr in FLIP_ATTRS:
                return FLIP[base]
            if e.attr in KEEP_ATTRS:
                return base
            return T
        if isinstance(e, ast.IfExp):
            b = self.beval(e.test, sigma, env_b)
            if b is not None:
                return self.tag(e.body if b else e.orelse, sigma, env, env_b)
            return join(self.tag(e.body, sigma, env, env_b), self.tag(e.orelse, sigma, env, env_b))
        if isinstance(e, (ast.ListComp, ast.GeneratorExp)):
            env2 = dict(env)
            for g in e.generators:
                it = self.tag(g.iter, sigma, env2, env_b)
                for x in ast.walk(g.target):
                    if isinstance(x, ast.Name):
                        env2[x.id] = it
            return self.tag(e.elt, sigma, env2, env_b)
        if isinstance(e, (ast.List, ast.Tuple)):
            tags = [self.tag(x.value if isinstance(x, ast.Starred) else x, sigma, env, env_b) for x in e.elts]
            out = tags[0] if tags else T
            for t in tags[1:]:
                out = join(out, t)
            return out
        if isinstance(e, ast.Starred):
            return self.tag(e.value, sigma, env, env_b)
        if isinstance(e, ast.Subscript):
            return T if not isinstance(e.value, ast.Name) else env.get(e.value.id + "[]", T)
        if isinstance(e, ast.Call):
            return self.call_tag(e, sigma, env, env_b)
        return T

    def call_tag(self, c: ast.Call, sigma, env, env_b) -> str:
        d = dotted(c.func) or ""
        leaf = d.split(".")[-1] if d else (c.func.attr if isinstance(c.func, ast.Attribute) else "")
        # ---- producers
        if leaf in ("psd_safe_cholesky",) or d in ("torch.linalg.cholesky", "torch.cholesky"):
            return tag_of_bool(self.upper_arg(c, sigma, env_b, pos=1 if leaf == "psd_safe_cholesky" else None))
        if d == "torch.eye":
            return D
        if isinstance(c.func, ast.Attribute) and c.func.attr in ("cholesky", "_cholesky"):
            return tag_of_bool(self.upper_arg(c, sigma, env_b, pos=0))
        # a package helper that returns a factor (e.g. _psd_safe_cholesky): join of its return tags
        if isinstance(c.func, ast.Name) and c.func.id in WRAPPERS:
            return self.tag(c.args[0], sigma, env, env_b) if c.args else T
        if isinstance(c.func, ast.Name) and getattr(self, "depth", 0) < 2:
            callee = self.idx.function_of_expr(self.fn.module, c.func)
            if callee is not None and callee.cls is None and callee is not self.fn:
                sub = Evaluator(self.idx, callee)
                sub.depth = getattr(self, "depth", 0) + 1
                rets: List = []
                sub.run_body(callee.body(), {}, {}, {}, rets)
                out = None
                for _, t, _n in rets:
                    out = t if out is None else join(out, t)
                if out is not None:
                    return out
        # ---- constructors that carry / consume an orientation
        cname = None
        if isinstance(c.func, ast.Name):
            k = self.idx.class_of_expr(self.fn.module, c.func)
            cname = k.name if k is not None else c.func.id
        elif isinstance(c.func, ast.Attribute) and c.func.attr == "__class__" and not (
                isinstance(c.func.value, ast.Name) and self.self_name and c.func.value.id == self.self_name):
            # other.__class__(X, ...): a wrapper of unknown class - keeps the tag of what it wraps
            return self.tag(c.args[0], sigma, env, env_b) if c.args else T
        elif isinstance(c.func, ast.Attribute) and c.func.attr == "__class__":
            cname = self.cls.name if self.cls is not None else None
            if cname not in TRI_CLASSES and cname not in DIAG_CLASSES and cname != "CholLinearOperator":
                # self.__class__(X) of a wrapper class (block / batch-repeat): keeps the tag of what it wraps
                return self.tag(c.args[0], sigma, env, env_b) if c.args else T
        if cname in TRI_CLASSES:
            up = self.upper_arg(c, sigma, env_b, pos=1 if cname == "TriangularLinearOperator" else None)
            factors = [a.value if isinstance(a, ast.Starred) else a for a in c.args[:1 if cname == "TriangularLinearOperator" else None]]
            for f in factors:
                self.sink(c, f"{cname}(..., upper=)", up, self.tag(f, sigma, env, env_b), sigma)
            return tag_of_bool(up)
        if cname == "CholLinearOperator":
            up = self.upper_arg(c, sigma, env_b, pos=1)
            if c.args:
                self.sink(c, "CholLinearOperator(chol, upper=)", up, self.tag(c.args[0], sigma, env, env_b), sigma)
            return T
        if cname in DIAG_CLASSES:
            return D
        if cname in WRAPPERS:
            return self.tag(c.args[0], sigma, env, env_b) if c.args else T
        # ---- consumers
        if d == "torch.linalg.solve_triangular":
            a = c.args[0] if c.args else self._kw(c, "A") or self._kw(c, "input")
            b = c.args[1] if len(c.args) > 1 else self._kw(c, "B")
            up = self.upper_arg(c, sigma, env_b, default=None)
            ta = self.tag(a, sigma, env, env_b) if a is not None else T
            self.sink(c, "torch.linalg.solve_triangular(A, B, upper=)", up, ta, sigma)
            tb = self.tag(b, sigma, env, env_b) if b is not None else T
            return ta if tb == D else T  # the inverse of a triangular matrix keeps its orientation
        if d == "torch.cholesky_solve":
            a = c.args[1] if len(c.args) > 1 else self._kw(c, "input2")
            up = self.upper_arg(c, sigma, env_b, pos=2)
            if a is not None:
                self.sink(c, "torch.cholesky_solve(B, L, upper=)", up, self.tag(a, sigma, env, env_b), sigma)
            return T
        if isinstance(c.func, ast.Attribute):
            m = c.func.attr
            recv = c.func.value
            if m == "_cholesky_solve":
                up = self.upper_arg(c, sigma, env_b, pos=1)
                self.sink(c, "<factor>._cholesky_solve(rhs, upper=)", up, self.tag(recv, sigma, env, env_b), sigma)
                return T
            if m == "solve_triangular":
                up = self.upper_arg(c, sigma, env_b, pos=1, default=None)
                self.sink(c, "<factor>.solve_triangular(rhs, upper=)", up, self.tag(recv, sigma, env, env_b), sigma)
                return T
            if m in FLIP_METHODS:
                return FLIP[self.tag(recv, sigma, env, env_b)]
            if m == "transpose":
                if [norm(a) for a in c.args] in (["-1", "-2"], ["-2", "-1"]):
                    return FLIP[self.tag(recv, sigma, env, env_b)]
                return T
            if m in KEEP_METHODS:
                return self.tag(recv, sigma, env, env_b)
        return T

    def sink(self, node: ast.AST, what: str, expected: Optional[bool], actual: str, sigma) -> None:
        self.sinks.append(SinkEvent(self.fn, node, what, expected, actual, dict(sigma)))

    # ------------------------------------------------------------------ statements
    def run_body(self, body: List[ast.stmt], sigma, env, env_b, returns: List) -> bool:
        """Returns True when the block always terminates (return / raise)."""
        for st in body:
            if self.stmt(st, sigma, env, env_b, returns):
                return True
        return False

    def stmt(self, st: ast.stmt, sigma, env, env_b, returns) -> bool:
        if isinstance(st, ast.Return):
            if st.value is not None:
                if isinstance(st.value, ast.Tuple):
                    t = self.tag(st.value.elts[0], sigma, env, env_b) if st.value.elts else T
                else:
                    t = self.tag(st.value, sigma, env, env_b)
                returns.append((dict(sigma), t, st))
            else:
                returns.append((dict(sigma), T, st))
            return True
        if isinstance(st, ast.Raise):
            return True
        if isinstance(st, ast.Assign):
            t = self.tag(st.value, sigma, env, env_b)
            b = self.beval(st.value, sigma, env_b)
            for tg in st.targets:
                if isinstance(tg, ast.Name):
                    env[tg.id] = t
                    env_b[tg.id] = b
                elif isinstance(tg, (ast.Tuple, ast.List)):
                    # tuple unpack: torch.linalg.qr -> (T, U); cholesky_ex -> (tag, info)
                    d = dotted(st.value.func) if isinstance(st.value, ast.Call) else None
                    tags = [T] * len(tg.elts)
                    if d == "torch.linalg.qr" and len(tags) == 2:
                        tags = [T, U]
                    elif d == "torch.linalg.cholesky_ex" and tags:
                        tags[0] = tag_of_bool(self.upper_arg(st.value, sigma, env_b))
                    for el, tt in zip(tg.elts, tags):
                        if isinstance(el, ast.Name):
                            env[el.id] = tt
                            env_b[el.id] = None
            return False
        if isinstance(st, ast.Expr):
            self.tag(st.value, sigma, env, env_b)
            return False
        if isinstance(st, ast.If):
            b = self.beval(st.test, sigma, env_b)
            if b is not None:
                return self.run_body(st.body if b else st.orelse, sigma, env, env_b, returns)
            e1, e2 = dict(env), dict(env)
            b1, b2 = dict(env_b), dict(env_b)
            r1 = self.run_body(st.body, sigma, e1, b1, returns)
            r2 = self.run_body(st.orelse, sigma, e2, b2, returns)
            for k in set(e1) | set(e2):
                if r1 and not r2:
                    env[k] = e2.get(k, T)
                elif r2 and not r1:
                    env[k] = e1.get(k, T)
                else:
                    env[k] = join(e1.get(k, T), e2.get(k, T)) if k in e1 and k in e2 else T
            for k in set(b1) | set(b2):
                env_b[k] = b1.get(k) if b1.get(k) == b2.get(k) else None
            return r1 and r2
        if isinstance(st, (ast.For, ast.While)):
            if isinstance(st, ast.For):
                it = self.tag(st.iter, sigma, env, env_b)
                for x in ast.walk(st.target):
                    if isinstance(x, ast.Name):
                        env[x.id] = it
            before = dict(env)
            self.run_body(st.body, sigma, env, env_b, returns)
            for k in set(env) | set(before):
                env[k] = join(env.get(k, T), before.get(k, T)) if k in env and k in before else T
            self.run_body(st.orelse, sigma, env, env_b, returns)
            return False
        if isinstance(st, ast.Try):
            e0 = dict(env)
            r = self.run_body(st.body, sigma, env, env_b, returns)
            outs = [dict(env)]
            for h in st.handlers:
                eh = dict(e0)
                self.run_body(h.body, sigma, eh, dict(env_b), returns)
                outs.append(eh)
            for k in set().union(*[set(o) for o in outs]):
                vals = [o.get(k, T) for o in outs]
                v = vals[0]
                for x in vals[1:]:
                    v = join(v, x)
                env[k] = v
            self.run_body(st.finalbody, sigma, env, env_b, returns)
            return False
        if isinstance(st, ast.With):
            return self.run_body(st.body, sigma, env, env_b, returns)
        if isinstance(st, ast.AugAssign) and isinstance(st.target, ast.Name):
            env[st.target.id] = T
        return False


def atoms_of(fn: FunctionInfo) -> List[str]:
    out = []
    self_name = fn.params()[0] if fn.cls is not None and fn.params() else None
    for n in ast.walk(fn.node):
        if isinstance(n, ast.Name) and n.id == "upper" and "upper" not in out:
            out.append("upper")
        if isinstance(n, ast.Attribute) and n.attr == "upper" and isinstance(n.value, ast.Name) and n.value.id == self_name:
            if "self.upper" not in out:
                out.append("self.upper")
    if fn.cls is not None and ({k.name for k in fn.cls.mro} & (TRI_CLASSES | {"CholLinearOperator"})) and "self.upper" not in out:
        out.append("self.upper")
    return out


def evaluate(idx: ProgramIndex, fn: FunctionInfo) -> Result:
    res = Result()
    res.atoms = atoms_of(fn)
    all_returns: List = []
    any_return = False
    tri = fn.cls is not None and bool({k.name for k in fn.cls.mro} & TRI_CLASSES)
    for values in itertools.product([False, True], repeat=len(res.atoms)):
        sigma = dict(zip(res.atoms, values))
        # precondition of the triangular-factor API: the `upper` argument names the factor's own orientation
        if tri and fn.name in ("_cholesky_solve", "solve_triangular") and "upper" in sigma and "self.upper" in sigma \
                and sigma["upper"] != sigma["self.upper"]:
            continue
        # inside __init__ the attribute self.upper is the parameter being stored
        if fn.name == "__init__" and "upper" in sigma and "self.upper" in sigma and sigma["upper"] != sigma["self.upper"]:
            continue
        ev = Evaluator(idx, fn)
        env: Dict[str, str] = {}
        env_b: Dict[str, Optional[bool]] = {}
        rets: List = []
        ev.run_body(fn.body(), sigma, env, env_b, rets)
        res.sinks += ev.sinks
        all_returns += rets
        any_return = any_return or bool(rets)
    res.returns = all_returns
    res.raises_only = not any_return and any(isinstance(n, ast.Raise) for n in ast.walk(fn.node))
    return res
