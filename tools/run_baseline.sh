#!/bin/sh
# Maintainer tool: run the repository's pinned suite and compare with BASELINE.json (stable_pass must all pass).
out=${1:-/tmp/baseline_junit.xml}
cd /repo && /venv/bin/python -m pytest -ra -q -p no:cacheprovider --timeout=900 --continue-on-collection-errors --junitxml="$out" >/tmp/baseline_run.log 2>&1
/venv/bin/python - "$out" <<'PY'
import json, sys, xml.etree.ElementTree as ET
b = json.load(open('/root/.vp/BASELINE.json'))
want = set(b['stable_pass'])
got = {}
for tc in ET.parse(sys.argv[1]).getroot().iter('testcase'):
    name = f"{tc.get('classname')}::{tc.get('name')}"
    bad = any(ch.tag in ('failure', 'error', 'skipped') for ch in tc)
    got[name] = not bad
missing = sorted(t for t in want if not got.get(t, False))
print(f"baseline: {len(want)} stable tests, {sum(1 for t in want if got.get(t))} passed, {len(missing)} not passing")
for t in missing[:20]:
    print("  NOT PASSING:", t)
sys.exit(1 if missing else 0)
PY
