#!/bin/sh
# Maintainer tool: confirm a seeded change independently.  Usage: confirm_seed.sh <seed dir> <scratch worktree> [full]
# In the scratch worktree (a clean checkout of /repo HEAD, outside /repo and /verif): clean demo must print OK, the patch must
# apply, the patched demo must print PROPERTY BROKEN, the library must byte-compile, and (with `full`) the pinned suite
# must still pass (compared with BASELINE.json stable_pass).
d=$1; w=$2; full=$3
cd "$w" || exit 2
git checkout -q -- . && git clean -fdq -- linear_operator
echo "clean demo:   $(PYTHONPATH="$w" OMP_NUM_THREADS=4 /venv/bin/python $d/demo.py 2>&1 | grep -E '^(OK|PROPERTY BROKEN)' | head -1 | cut -c1-200)"
git apply "$d/patch.diff" || { echo "PATCH DOES NOT APPLY"; exit 1; }
/venv/bin/python -m compileall -q linear_operator >/dev/null || echo "COMPILE FAILURE"
echo "patched demo: $(PYTHONPATH="$w" OMP_NUM_THREADS=4 /venv/bin/python $d/demo.py 2>&1 | grep -E '^(OK|PROPERTY BROKEN)' | head -1 | cut -c1-300)"
if [ "$full" = full ]; then
  x=$(mktemp /tmp/seedjunit.XXXXXX.xml)
  OMP_NUM_THREADS=4 /venv/bin/python -m pytest -q -p no:cacheprovider --timeout=900 --continue-on-collection-errors --junitxml="$x" >/dev/null 2>&1
  /venv/bin/python - "$x" <<'PY'
import json, sys, xml.etree.ElementTree as ET
b = json.load(open('/root/.vp/BASELINE.json'))
want = set(b['stable_pass'])
got = {}
for tc in ET.parse(sys.argv[1]).getroot().iter('testcase'):
    name = f"{tc.get('classname')}::{tc.get('name')}"
    got[name] = not any(ch.tag in ('failure', 'error', 'skipped') for ch in tc)
missing = sorted(t for t in want if not got.get(t, False))
print(f"suite: {len(want)} stable tests, {sum(1 for t in want if got.get(t))} passed, {len(missing)} not passing")
for t in missing[:8]:
    print("  NOT PASSING:", t)
PY
  rm -f "$x"
fi
git checkout -q -- . && git clean -fdq -- linear_operator
