#!/venv/bin/python
"""Maintainer tool: apply every behaviour-preserving refactoring under /verif/refactors to /repo (one at a time,
reverted afterwards) and run all registered checks (quick tier, quick self-test subset included).  Every check must
exit 0: exit 1 is a false alarm, exit 2 a brittle analysis.  Writes /verif/refactors/RESULTS.json."""
import glob, json, os, subprocess, sys
from concurrent.futures import ThreadPoolExecutor

os.chdir("/verif")
props = [c["property_id"] for c in json.load(open("MANIFEST.json"))["checks"]]
if os.environ.get("REGRESS_PROPS"):  # restrict the checks that are run (results file is then not rewritten)
    props = [p for p in props if p in os.environ["REGRESS_PROPS"].split(",")]
only = set(sys.argv[1:])
if subprocess.run(["git", "-C", "/repo", "diff", "--quiet"]).returncode != 0:
    sys.exit("/repo is dirty")
results, bad = {}, 0


def run(p):
    r = subprocess.run(["./check", p, "--tier", "quick"], capture_output=True, text=True)
    lines = [ln[:300] for ln in r.stdout.splitlines() if ln.startswith(("ANALYSIS-ERROR",)) or (": [" in ln and not ln.startswith("KNOWN"))]
    return p, r.returncode, lines


for d in sorted(glob.glob("/verif/refactors/C*-*/")):
    rid = os.path.basename(d.rstrip("/"))
    if only and rid not in only and rid.split("-")[0] not in only:
        continue
    if subprocess.run(["git", "-C", "/repo", "apply", "--check", d + "patch.diff"], capture_output=True).returncode != 0:
        print("SKIP (does not apply)", rid)
        continue
    subprocess.run(["git", "-C", "/repo", "apply", d + "patch.diff"], check=True)
    try:
        with ThreadPoolExecutor(14) as ex:
            out = list(ex.map(run, props))
    finally:
        subprocess.run(["git", "-C", "/repo", "checkout", "--", "."], check=True)
        subprocess.run(["git", "-C", "/repo", "clean", "-fdq", "--", "linear_operator"])
    alarms = {p: {"exit": c, "lines": l[:4]} for p, c, l in out if c != 0}
    results[rid] = alarms
    bad += 1 if alarms else 0
    print(("ok   " if not alarms else "ALARM"), rid, {p: a["exit"] for p, a in alarms.items()})
if not only and not os.environ.get("REGRESS_PROPS"):
    json.dump(results, open("/verif/refactors/RESULTS.json", "w"), indent=1)
print("refactorings with an alarm:", bad, "of", len(results))
