#!/venv/bin/python
"""Maintainer tool: (re)generate /verif/MANIFEST.json from the table below.  Never run by a check."""
import json
import os

HERE = os.path.dirname(os.path.dirname(os.path.abspath(__file__)))
BASELINE = ("cd /repo && /venv/bin/python -m pytest -ra -q -p no:cacheprovider --timeout=900 "
            "--continue-on-collection-errors")

TRUST = ("python's ast parser; the rule tables in /verif/lo_static (torch API classification, per-symbol exception "
         "tables with a reason each); the source-level normalisations of lo_static/normalize.py and lo_static/inline.py "
         "(table dispatch -> if-chain, reflective method names -> specialised copies, same-module helpers inlined), which "
         "assume that private names are only used inside the package; the assumptions listed in the evidence file")

# id -> (built?, technique, level text, level_note, design_ref)
CHECKS = {
    "C17": (True,
            "typestate / effect analysis of the context-manager protocol (ast, abstract values, MRO inlining)",
            "Decides, for ALL construct/enter/exit/exception-exit histories over all 36 settings classes at once, the "
            "structural conditions that make a context restore exactly the value in force before entry: capture in "
            "__enter__ before the write (S1), per-entry stack (S2), unconditional write-back (S3), exit cannot be "
            "skipped or swallow exceptions (S4), slot isolation per class and per dtype and writes going through the class's own _set_state hook (S5), "
            "composite pairing incl. conditional sub-contexts entered and exited under the same condition (S6; contexts written as "
            "contextlib.contextmanager generators must restore in the finally of a try that encloses the yield, or through enclosing with statements - S4), no "
            "import-time reads by consumers (S7). These conditions are sufficient for the property under the stated "
            "assumptions (single thread, contexts used through `with`) and each is necessary: breaking one yields a "
            "concrete leaking history. The unit test samples one history; this quantifies over all of them.",
            TRUST + "; `with` guarantees __exit__; single-threaded histories.",
            "DESIGN.md section 3, C17"),
    "C14": (True,
            "constructor-record dataflow through the MRO (table agreement), factory/dtype lint, guard-dominance and "
            "optional-dereference rules over the ast",
            "Decides structural clauses of C14 for every operator class, every dtype and every default-dtype "
            "configuration at once: (A) the rebuild cls(*_args, **_kwargs) used by clone/detach/to/type/cpu/"
            "representation_tree binds every constructor parameter to a value derived from that parameter (flags such as "
            "upper, dim, batch_repeat, masks, interpolation indices survive); (F) every floating tensor factory and "
            "every constructor call of a dtype-taking class carries a dtype derived from an operand, never torch's "
            "default; (V) dtype conversions of recorded arguments sit behind a floating-point test so index / mask "
            "tensors are never cast; (N) optional device/dtype are None-tested; (P,P2,G,G2) dtype/device property "
            "overrides, to()/type() overrides of dtype-keyword classes store the TARGET dtype, (P3) a class whose dtype is an attribute "
            "the constructor sets to a fixed value (permutation operators: integer tensors carry no floating dtype) writes that attribute "
            "on the result of to() and type(), (V2) no conversion returns self on the strength of the first tensor's dtype, requires_grad only on "
            "floating tensors and over both the positional and the keyword record; (C) the "
            "ownership engine proves that the operator returned by clone() holds no tensor object and no storage of "
            "the original; (R) explicit rebuilds inside to/type/cpu/cuda/double/float/half/clone/detach bind to the "
            "constructor and forward every value-bearing flag; (M) no statement outside LinearOperator.__init__ "
            "mutates a keyword-record dictionary of an existing operator, directly or through an alias (the "
            "representation tree keeps references). Each is "
            "a necessary condition of the property. NOT decided: equality of dense values after a conversion.",
            TRUST, "DESIGN.md section 3, C14"),
    "C15": (True,
            "dispatch-table reconstruction from decorators x MRO resolution (table agreement) + term rewriting of the "
            "reflected handlers in the free non-commutative algebra",
            "The registered-function tables are finite but never enumerated by the tests. This check rebuilds them from "
            "the decorators, proves that every function the property lists is registered (both operand orders for the "
            "four binary operations and division), resolves every registered method NAME through the MRO on all 36 operator classes "
            "and requires a call-compatible signature (1200+ obligations, exhaustive), checks the routing structure of "
            "__torch_function__ by partial evaluation (guarded NotImplementedError, lookup by name on the receiving class, "
            "operand swap that forwards every remaining positional and keyword argument), and "
            "PROVES by term rewriting that every reflected one-liner and every operator-second handler computes "
            "f(other, self, alpha) with the right order, sign, transposes and alpha placement for all operand values; "
            "(T6) with A.solve(X) = A^-1 X as a primitive, every evaluable solve_triangular definition returns A^-1 R "
            "for left=True and R A^-1 for left=False, or raises; (T8) the operator-second handler of a non-commutative function does not hand its operands, unswapped, to "
            "the operator-first implementation; (T9) a registered handler reads every parameter it accepts outside error messages, or "
            "refuses unconditionally (an argument torch honours is never silently ignored); (T10) a parameter that is read only in the tests "
            "guarding raise statements is pinned to a tested constant on every returning path (propositional consistency of the path's tests); (T7) a unary elementwise map applied factor by factor "
            "to a Kronecker-structured operator is a multiplicative function (abs, sqrt, inverse ...), never exp/log. "
            "NOT decided: that each first-operand handler's value equals torch on the dense tensor (numerical).",
            TRUST + "; operators' +, @, mul are true sum/product/elementwise product (C01/C02).",
            "DESIGN.md section 3, C15"),
    "C13": (True,
            "interprocedural ownership / may-alias dataflow (forward abstract interpretation over the ast, callee "
            "summaries by whole-package fixpoint, MRO + class-hierarchy call resolution)",
            "Claims the property in full, sound modulo the listed assumptions A1-A6: every one of the ~370 in-place "
            "write sites of the package (tensor x.op_() methods, out= keywords, subscript stores, augmented "
            "assignments, requires_grad_/detach_ applied to operators) is proved to target storage the function owns - "
            "or is excused by the property itself (explicit out= buffers, the named in-place API) - for EVERY input "
            "layout (contiguous, expanded, transposed, storage-sharing views: contiguous/reshape/to/expand are never "
            "assumed to copy), every early-exit path and every class reachable through dynamic dispatch. Also: no "
            "method re-assigns an attribute that __init__ derives from constructor parameters, nor mutates a list / dict "
            "held in one (directly or through an alias). The tests never look at "
            "their inputs after a call and always pass fresh contiguous tensors, so none of this is reachable by them.",
            TRUST + "; assumptions A1 (torch API table), A2 (caller closures do not leak retained storage), A3 (no "
            "further reflection), A4 (Function.apply returns new objects), A5 (annotation / usage based typing), A6.",
            "DESIGN.md section 2 (E1) and section 3, C13"),
    "C19": (True,
            "taint analysis over a statement-level CFG with dominators (networkx), correlated-branch pruning and "
            "one-level callee validation summaries",
            "Partial, structural: for every definition of the contraction entry points (matmul, rmatmul, solve, "
            "solve_triangular, sqrt_inv_matmul, inv_quad, inv_quad_logdet; ~40 definitions x operands) the operand may "
            "reach an elementwise arithmetic use or the return value only when dominated by a shape guard on that "
            "operand (_matmul_broadcast_shape, an explicit shape comparison that raises, or delegation to a checked "
            "contraction with self); (K) a product kernel of utils/ that "
            "expands or repeats its operand validates it first. This is a necessary condition of 'incompatible shapes raise instead of "
            "broadcasting' and is decided for all operand shapes at once. NOT decided: out-of-range indices, "
            "non-square operators, shape arithmetic of +/* where broadcasting is the specification, results built "
            "from the operand's shape only.",
            TRUST + "; torch contraction kernels raise on incompatible operands; contraction methods of self-derived "
            "objects validate their operand.", "DESIGN.md section 3, C19"),
    "C04": (True,
            "CFG path enumeration with event counting (left factor) + finite-domain abstract interpretation of "
            "orientation tags under all assignments of the boolean atoms upper / self.upper",
            "Partial, structural: (L) on every acyclic CFG path of every solve/_inv_matmul definition on which a left "
            "factor is given it is applied exactly once (multiplied or handed to one delegate) - dropping it or "
            "applying it twice changes L A^-1 B; (O) every consumer of a triangular orientation "
            "(torch.linalg.solve_triangular, torch.cholesky_solve, _cholesky_solve, Triangular/Chol/"
            "KroneckerProductTriangular constructors; ~40 decided sites) receives upper= equal to the orientation tag "
            "of the factor it is given, under every assignment of upper/self.upper - a mismatch makes the kernel read "
            "the wrong triangle; (T) on the iterative route linear_cg measures convergence on the true residual, leaves "
            "early only under the tolerance test and warns on every other path (the C08 stopping rules re-used); (S) a "
            "solve-family definition that takes a specification-bearing parameter (upper, left_tensor ...) reads or forwards "
            "it; (D) a solve-family definition does not decompose self through a decomposition that, as resolved on that "
            "class, picks its algorithm by a size threshold (diagonalization / root_decomposition without method=): the "
            "'direct' route would silently become a truncated Lanczos approximation above max_cholesky_size. NOT "
            "decided: residual accuracy of the direct routes (Woodbury / Kronecker algebra), which algorithm the size "
            "thresholds select.",
            TRUST + "; orientation tag rules and class invariants of lo_static/orient.py.", "DESIGN.md section 3, C04"),
    "C06": (True,
            "finite-domain abstract interpretation of orientation tags + dead-parameter lint + producer/consumer "
            "string-table agreement",
            "Partial, structural: (R) cholesky(upper) and all _cholesky definitions return the requested orientation "
            "under every assignment of upper/self.upper (else L L^T and R^T R are confused); (S) every definition "
            "taking a spec-bearing parameter (upper, left_tensor/lhs, eigenvectors, reduce_inv_quad, logdet, dim, "
            "alpha) reads or forwards it; (M) the method names _choose_root_method can produce are handled by both "
            "decomposition dispatchers, which reject unknown names; (M2) inside a branch taken for an explicit "
            "method name, a call to another dispatcher that has its own branch for that name passes method= (an exact "
            "request is not silently re-dispatched to truncated Lanczos by size); (J) the info-gating, per-member / "
            "incremental jitter and orientation rules of psd_safe_cholesky (C16.I/D/U re-used), since every Cholesky "
            "route returns that factor; (U) a sign factor that an _svd definition multiplies into the eigenvector basis cannot "
            "vanish (torch.sign is 0 at 0: the singular vectors of zero singular values of a singular PSD operator would be wiped "
            "out) - a necessary condition of orthonormal U / V. NOT decided: L L^T = A, orthonormality of Q/U/V beyond that clause, "
            "Krylov compressions (numerical).",
            TRUST + "; orientation tag rules of lo_static/orient.py; reviewed exception tables.", "DESIGN.md section 3, C06"),
    "C16": (True,
            "typestate over acyclic CFG paths with branch conditions decomposed into literals, must-pass-through / dominance queries on the statement CFG of utils/cholesky.py, backward "
            "dependence closure, ownership analysis for the input",
            "Partial, structural - the control skeleton of psd_safe_cholesky for all inputs, batch shapes and dtypes: "
            "(W) A is never written; (I) on every acyclic path to a return of a factor, after the LAST cholesky_ex binding on that path some "
            "test on the info codes of THAT factorization (followed through copies) guarantees - whichever disjunct made it take that branch - that the info codes are all zero (or, for "
            "the first factorization, the documented trace_mode escape); (F) exhausting the tries cannot reach a normal return and raises "
            "NotPSDError, the NaN screen dominates the retries, every perturbation is followed by a NumericalWarning; "
            "(D) the addend depends on info (per batch member) and is the difference new - previous jitter, defaults "
            "come from settings.cholesky_jitter(A.dtype) / cholesky_max_tries and are installed under a test for None, so an "
            "explicit jitter=0.0 is honoured; (U) upper transposes exactly on "
            "request; (T) the retry loop makes exactly max_tries perturbed attempts and the k-th attempt adds jitter*10^k "
            "(linear integer arithmetic on the range() bounds and on the exponent). NOT decided: that the factor is numerically the Cholesky factor of the perturbed matrix.",
            TRUST + "; cholesky_ex info semantics.", "DESIGN.md section 3, C16"),
    "C12": (True,
            "effect analysis of history channels (attribute stores outside __init__, memo-dictionary writes) with "
            "guard-dominance queries on the CFG; decorator / key table agreement",
            "Partial, structural, for ALL query sequences: history can reach a later answer only through mutable "
            "per-object or global state, so every such channel is enumerated (attributes of self written outside "
            "__init__, _memoize_cache entries, class-level globals) and each write must be write-once (dominated by a "
            "'not yet set' test with the right polarity), a keyed memo (read back only under equality of the key stored "
            "with it), a private helper guarded at all its call sites, or aimed at an operator constructed in the same "
            "function; ignore_args caches only where arguments cannot matter, and one cache name belongs to one method name as seen from "
            "every class (K: two methods under one name read each other's entries); denotation attributes are never "
            "re-assigned; a 'not yet cached' guard probes the cache with the same key shape as the "
            "write it protects (W, vacuous-guard clause); no method writes in place into a tensor held by self or "
            "obtained from a cached query (M; the C13 ownership proof restricted to operator state); containers "
            "reachable from a denotation attribute are not mutated outside __init__ (D); (T) a result is stored into the cache of ANOTHER operator only in code reachable from the reviewed "
            "transplant sites (add_low_rank, cat_rows) - new sites are reported for review, since whether a carried-over "
            "factorization is valid for the new matrix is algebra this analysis cannot do; every cache-hit shortcut (try pop/get_from_cache ... except CachingError) whose cache name has "
            "a writer returns the same components as its miss path (H; today both such shortcuts are dormant). Tests "
            "build a fresh operator per query, so no history is ever exercised. NOT decided: that a "
            "cached or transplanted factorization is numerically valid for the (new) matrix.",
            TRUST + "; per-call autograd ctx objects and the settings classes (C17) are not operator history.",
            "DESIGN.md section 3, C12"),
    "C02": (True,
            "rebuild-site x constructor-signature table agreement resolved per concrete class through the MRO; "
            "polarity-aware type-test dominance for scalar operands",
            "Partial, structural: for each of the 36 operator classes and every method as resolved ON THAT CLASS "
            "(inherited rewrite sites included; ~500 (class, site) obligations) a rebuild self.__class__(...) / "
            "type(self)(...) must bind to the class's constructor and pass its value-bearing flags (upper, dim, "
            "batch_repeat, batch_shape, num_outputs_per_input, open **params) - a dropped flag makes expand / permute / "
            "index / scale / transpose / jitter return an operator that denotes a different matrix; and public arithmetic "
            "methods dereference a python-scalar operand only behind a type test or conversion (S), convert it with "
            "the operator's dtype (S2), and the private constant-multiplication hook (derived: the private method mul() calls in its tensor branch; _mul_constant) is reached only through mul(), which "
            "establishes its precondition, or from its own definitions (H: who-may-call); (O) a product that a "
            "left-multiplication method (matmul/_matmul/__matmul__/_t_matmul) builds from self and the operand keeps "
            "self on the left, and the reflected family keeps it on the right - for non-commuting matrices the swap "
            "is a different operator; (Q) a constructor that splits its open **params into dictionaries it keeps gets every part "
            "back at each rebuild site, through a ** expansion that derives from the kept part (followed through locals and private "
            "rebuild helpers); (D) no method mutates a list/dict held in a denotation attribute of an "
            "existing operator. Decided for every "
            "class x rewrite cell at once. NOT decided: dense values, broadcasting arithmetic of constants, argument "
            "types at rebuild sites, flags hidden behind an unrelated **dict.",
            TRUST + "; reviewed tables of non-value flags and exceptions in lo_static/props/c02.py.", "DESIGN.md section 3, C02"),
    "C01": (True,
            "MRO resolution of required hooks + contradiction rule over sibling implementations (transitive "
            "attribute-read sets through self calls, super() and modelled base-class indirections)",
            "Partial, structural: (I) every exported operator class resolves _matmul/_size/_transpose_nonbatch (and the "
            "hooks its abstract base declares) to real implementations; (F) the constructor flags that select WHICH "
            "matrix the arguments denote (bool/int-default flags that do not enter _size: upper, dim) are consulted by "
            "to_dense and by _matmul alike, and by _t_matmul/_diagonal/_get_indices/_getitem at least as much - if one "
            "sibling branches on the flag and another does not, the operator multiplies as a different matrix than it "
            "densifies to for one value of the flag; (D) the floating buffers of the product / densification kernels "
            "(utils/toeplitz, sparse, interpolation ..., _matmul / to_dense families) carry an operand's dtype, so a "
            "float64 product is not rounded through float32; (Q) an argument-less squeeze() whose result is used as a "
            "subscript index sits behind an explicit element-count test (else the size-1 case loses a dimension); (W) a product / densification "
            "kernel never writes in place into storage of the operator or of the operand (the second product would "
            "differ from the first); (O) operand order at the product sites of the matmul / rmatmul families; (T) the transpose product "
            "of a composite goes through the transpose products of its components (a diagonal component excepted). "
            "Decided for all values, shapes and nestings at once. NOT "
            "decided: numerical agreement of matmul / transpose / to_dense (FFT, Kronecker reshapes, interpolation).",
            TRUST, "DESIGN.md section 3, C01"),
    "C07": (True,
            "table agreement over the positional protocol of the autograd Functions (forward signature x backward "
            "tuples x needs_input_grad indices x saved-tensor layouts x apply sites), with CFG reachability for "
            "branch correlation; reaching-definitions dataflow with an abstract polynomial-degree domain for linearity "
            "in the upstream gradient",
            "Partial, structural: for all 9 torch.autograd.Function classes the fixed prefix of every backward tuple "
            "equals the number of fixed forward inputs on that layout (P1), every needs_input_grad index gates the "
            "gradient returned at exactly that position and the [j:] slice starts where the representation starts "
            "(P2), save_for_backward and the unpacking of saved_tensors agree on what precedes / follows the "
            "representation (P3), every apply site passes the number of fixed arguments the forward expects for its "
            "layout flag and no self.X in the slot of another parameter X (P4), and backward rebuilds the operator from "
            "the saved representation slice (P6); every hand-written _bilinear_derivative (17 return sites in 14 classes) "
            "returns its segments - one gradient per tensor argument, the sub-operator's tuple per operator argument - in "
            "the order in which the constructor record flattens the representation (P5); the autograd default "
            "re-expands the gradients of the filtered differentiable arguments to one entry per representation "
            "element in order (P7); in product-structured operators (ConstantMul, Interpolated) each hand-written "
            "gradient depends, by flow-sensitive value dependence, on every other factor (P8); (L) every backward is LINEAR in each upstream gradient - each returned entry "
            "value-depends on one, each upstream gradient reaches a returned entry, and a degree analysis (abstract "
            "degree 0/1/2/unknown per value, bilinear ops add degrees, concatenations paired segment-wise) finds no "
            "product whose two operands both depend on the same upstream gradient: g*g == g and 1*x == x for the "
            "all-ones gradient of .sum().backward(), so the tests cannot see it; (P9) the contributions of two upstream "
            "gradients are accumulated independently, never one only on the branch where the other is None; (P10) the re-shaping of an upstream gradient is not gated by a "
            "needs_input_grad test while a use can be reached around it; (T) the transpose-product rule of C01, since the rhs "
            "gradient of Matmul is computed through _t_matmul; (B) every hand-written "
            "_bilinear_derivative is BILINEAR in (left_vecs, right_vecs): each non-zero returned entry value-depends on both "
            "and no product has both operands depending on the same one (the copy-and-paste slip left-for-right, invisible "
            "when tests pass left == right). PyTorch checks tuple length only on executed paths and the tests set "
            "requires_grad on everything, so misaligned indices / shifted prefixes on requires_grad subsets are "
            "invisible to them. NOT decided: gradient VALUES, swaps among same-kind tensor slots.",
            TRUST, "DESIGN.md section 3, C07"),
    "C08": (True,
            "backward data dependence (in-place methods and out= keywords as definitions) and dominance / reachability "
            "on the statement CFG of linear_cg and its two update helpers; sibling agreement between the preconditioned "
            "branch and the un-preconditioned helper",
            "Partial, structural: the control / data skeleton that C08's clauses presuppose, for all inputs: converged "
            "columns are frozen by masking the step length by has_converged in BOTH sibling update paths (Z); the "
            "residual norm that decides convergence is masked by rhs_is_zero inside the loop and the returned iterate is "
            "multiplied back by rhs_norm after it (S); max_tridiag_iter > max_iter and a NaN first residual raise before "
            "the iteration (E); the early exit and tolerance_reached are controlled (true control dependence, not mere dominance) by tolerance and "
            "residual norm, and - when tridiagonal matrices can be requested - depend on n_tridiag through reaching "
            "definitions (X); the NumericalWarning test lies on every path from the loop to a return and every warning-free "
            "path to a return is justified by the tolerance-reached flag or a zero iteration budget, path conditions being "
            "decomposed into literals and flags looked through (W); every torch.div by an iteration "
            "quantity is dominated by the lt(den, eps) -> masked_fill_(mask, 1) idiom (D); by flow-sensitive value "
            "dependence the norm that decides convergence is a function of the residual itself, not of the "
            "preconditioned inner product, the zero-column threshold does not depend on the right-hand side, and the "
            "tridiagonal recording stops only when the off-diagonal entry of EVERY column vanished (M); the break / reached flag lie on a branch "
            "that guarantees residual norm < tolerance, not merely on a branch of that test (X); the tridiagonal matrix that is returned is "
            "the recorded buffer, only sliced / permuted / copied after the iteration, never re-computed or written (L); the dimension of the "
            "tridiagonal buffer is capped by the row count of the system on every path - three-valued min / max / conditional "
            "derivation, reported only when definitely uncapped (N). The tests use one "
            "well-conditioned system with a preconditioner-free path, so the preconditioned sibling, zero columns and "
            "zero curvature are not exercised. NOT decided (numerical): monotone A-norm error, Chebyshev bound, that "
            "t_mat is the Lanczos matrix, preconditioner independence of the answer.",
            TRUST, "DESIGN.md section 3, C08"),
    "C11": (True,
            "backward data dependence, dominance and branch-polarity on the statement CFG of minres / "
            "contour_integral_quad; role-typed permutation check of the tail buffer rotations; table agreement between "
            "the producer's 4-tuple and its five unpacking call sites; row-offset table of the un-shifted solve",
            "Partial, structural: for all inputs, shift batches and iteration counts - the solution is masked by "
            "rhs_is_zero on every path after the loop (M1) and un-normalised by rhs_norm (M2); squeeze(0) only under a "
            "test on the number of shifts, shifts defaulted before its first dereference with rhs's dtype/device (M3); "
            "squeeze(-1) paired with unsqueeze(-1) through the flag (M4); shifts and value reach the recurrence and the "
            "helper call passes buffers by role (M5); every tail rotation of the Lanczos / Givens buffers is alias-free "
            "and shifts roles prev2 <- prev1 <- curr (M6; such errors appear only after 2-3 iterations); clamped "
            "divisions and a tolerance-controlled exit (M7); consumers of contour_integral_quad unpack by the producer's "
            "positions and multiply the weights with the shifted solves only (Q1); the un-shifted solve occupies the "
            "same leading rows in allocation, fill and split (Q2); `inverse` controls the extra K-multiplication with "
            "the right polarity (Q3); non-positive eigenvalue estimates fall back to the diagonal (Q4); the threshold below which a column counts "
            "as zero does not depend on the right-hand side (M8: linearity in b). NOT decided "
            "(numerical): solve accuracy, quadrature accuracy, sqrt_inv_matmul twice = A^{-1}, CIQ sample covariance.",
            TRUST, "DESIGN.md section 3, C11"),
}

NOT_APPLICABLE = {
    "C03": "equality of op[idx] with dense[idx] is decided by per-class integer index arithmetic on runtime values; "
           "no structural clause is a necessary condition (static analysis cannot bound the values).",
    "C05": "values of log-determinants / quadratic forms and of the Lanczos quadrature are floating-point results; the "
           "one type-confusion branch needs a type-resolved program that no available tool (mypy/pyright absent) provides.",
    "C09": "orthonormality of Q and Q^T A Q = T are numerical identities of a floating-point recurrence.",
    "C10": "PSD-ness of the residual, greedy pivot optimality and the exact Woodbury inverse / log-determinant are numerical.",
    "C18": "R R^T = covariance of each sampler's linear map is a numerical identity; the deterministic reformulation in "
           "the property is a dynamic technique.",
    "C20": "utility kernels are specified by the values they return (FFT, sparse index arithmetic, QR); their input "
           "immutability is covered under C13 and buffer dtypes under C14.",
}
NOT_BUILT = "static rule for the structural clause not built yet (see DESIGN.md); not claimed until it is."

ALL = [f"C{i:02d}" for i in range(1, 21)]


def main():
    checks = []
    na = []
    for pid in ALL:
        ent = CHECKS.get(pid)
        if ent and ent[0]:
            _, tech, text, note, ref = ent
            checks.append({
                "property_id": pid,
                "quick_cmd": f"./check {pid} --tier quick",
                "thorough_cmd": f"./check {pid} --tier thorough",
                "evidence_file": f"/verif/evidence/{pid}.json",
                "replay_cmd_template": f"./check {pid} --replay {{path}}",
                "engine": "lo_static",
                "level_claimed": {"category": "other", "text": text, "design_ref": ref},
                "level_note": note,
                "technique": "static analysis: " + tech,
            })
        else:
            na.append({"property_id": pid, "reason": NOT_APPLICABLE.get(pid, NOT_BUILT)})
    man = {
        "version": 1,
        "setup_cmd": "/venv/bin/python -m compileall -q /verif/lo_static >/dev/null 2>&1; test -x /verif/check",
        "hooks": {
            "guard": "LINEAR_OPERATOR_VERIF",
            "enable": "none needed: the checks are static (ast over /repo's working tree); no instrumentation exists in /repo",
            "baseline_off_cmd": BASELINE,
            "source_commits": [],
            "add_only": True,
        },
        "engines": [{
            "name": "lo_static",
            "path": "/verif/lo_static",
            "serves_properties": [c["property_id"] for c in checks],
            "kind_free_text": "repository-specific static analysers over python's ast: program index with C3 MRO and "
                              "import resolution, statement CFG with dominators, ownership/may-alias dataflow, table "
                              "agreement rules; seeded-variant self-test by in-memory source overlay",
        }],
        "checks": checks,
        "not_applicable": na,
        "notes": "Technique family: static analysis only. Every check parses /repo/linear_operator on every run and never "
                 "imports or executes it. exit 0 = held (KNOWN-FINDING lines allowed), 1 = VIOLATION, 2 = ANALYSIS-ERROR "
                 "(fail closed). Genuine defects found are repaired by 'fix:' commits in /repo or listed in "
                 "/verif/known_findings.json.",
    }
    with open(os.path.join(HERE, "MANIFEST.json"), "w") as fh:
        json.dump(man, fh, indent=1)
    print(f"{len(checks)} checks, {len(na)} not applicable")


if __name__ == "__main__":
    main()
