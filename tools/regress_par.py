#!/venv/bin/python
"""Maintainer tool: the refactoring / seeded-change regressions, in parallel on scratch worktrees of /repo (outside /repo and
/verif, removed afterwards).  Usage: regress_par.py refactors|seeded [id ...]
refactors: every check must exit 0 on every behaviour-preserving patch.  seeded: the own check's verdict must equal the
recorded one and no check may exit 2.  Writes RESULTS.json of the corpus when run without ids."""
import glob, json, os, queue, shutil, subprocess, sys, tempfile, threading
from concurrent.futures import ThreadPoolExecutor

os.chdir("/verif")
mode = sys.argv[1]
only = set(sys.argv[2:])
props = [c["property_id"] for c in json.load(open("MANIFEST.json"))["checks"]]
if os.environ.get("REGRESS_PROPS"):
    props = [p for p in props if p in os.environ["REGRESS_PROPS"].split(",")]
corpus = "/verif/refactors" if mode == "refactors" else "/verif/seeded"
ids = [os.path.basename(d.rstrip("/")) for d in sorted(glob.glob(corpus + "/C*-*/"))]
ids = [i for i in ids if not only or i in only or i.split("-")[0] in only]
K = int(os.environ.get("REGRESS_WORKERS", "5"))
base = tempfile.mkdtemp(prefix="rgpar_", dir="/tmp")
trees = []
for k in range(K):
    w = os.path.join(base, f"wt{k}")
    subprocess.run(["git", "-C", "/repo", "worktree", "add", "--detach", w, "HEAD", "-q"], check=True)
    trees.append(w)
free = queue.Queue()
for w in trees:
    free.put(w)
results, lock = {}, threading.Lock()


def run_one(rid):
    w = free.get()
    try:
        subprocess.run(["git", "-C", w, "checkout", "-q", "--", "."], check=True)
        subprocess.run(["git", "-C", w, "clean", "-fdq", "--", "linear_operator"])
        patch = f"{corpus}/{rid}/patch.diff"
        if subprocess.run(["git", "-C", w, "apply", patch], capture_output=True).returncode != 0:
            return rid, None
        scratch = os.path.join(base, "scr_" + os.path.basename(w))
        env = dict(os.environ, VERIF_SCRATCH=scratch)

        def chk(p):
            # refactorings: the property the patch was written for also runs its quick self-test subset (a mutant that is no
            # longer caught on the refactored shape is an alarm); REGRESS_SELFTEST=all runs it for every property
            full = os.environ.get("REGRESS_SELFTEST") == "all"
            cmd = ["./check", p, "--tier", "quick", "--root", w] + (
                ["--no-selftest"] if (mode == "seeded" or (not full and p != rid.split("-")[0])) else [])
            r = subprocess.run(cmd, capture_output=True, text=True, env=env)
            lines = [ln[:300] for ln in r.stdout.splitlines() if ln.startswith("ANALYSIS-ERROR") or (": [" in ln and not ln.startswith("KNOWN"))]
            return p, r.returncode, lines

        with ThreadPoolExecutor(3) as ex:
            out = list(ex.map(chk, props))
        return rid, out
    finally:
        free.put(w)


bad = 0
try:
    with ThreadPoolExecutor(K) as pool:
        for rid, out in pool.map(run_one, ids):
            if out is None:
                print("SKIP (does not apply)", rid)
                continue
            if mode == "refactors":
                alarms = {p: {"exit": c, "lines": l[:4]} for p, c, l in out if c != 0}
                results[rid] = alarms
                bad += 1 if alarms else 0
                print(("ok   " if not alarms else "ALARM"), rid, {p: a["exit"] for p, a in alarms.items()}, flush=True)
            else:
                meta = json.load(open(f"{corpus}/{rid}/meta.json"))
                own = meta["property"]
                codes = {p: c for p, c, l in out}
                rules = {p: sorted({ln.split("[", 1)[1].split("]", 1)[0] for ln in l if ": [" in ln}) for p, c, l in out if c == 1}
                want = meta["check_verdict"]["result"]
                got = "caught" if codes.get(own) == 1 else ("analysis-error" if codes.get(own) == 2 else "missed")
                ok = (got == want or own not in codes) and not any(c == 2 for c in codes.values())
                bad += 0 if ok else 1
                results[rid] = {"property": own, "recorded": want, "now": got, "own_rules": rules.get(own, []),
                                "caught_by_other_checks": {p: r for p, r in rules.items() if p != own},
                                "analysis_errors": [p for p, c in codes.items() if c == 2]}
                print(("ok  " if ok else "DIFF"), rid, got, rules.get(own, []), {p: r for p, r in rules.items() if p != own}, flush=True)
finally:
    for w in trees:
        subprocess.run(["git", "-C", "/repo", "worktree", "remove", "--force", w], capture_output=True)
    subprocess.run(["git", "-C", "/repo", "worktree", "prune"])
    shutil.rmtree(base, ignore_errors=True)
if not only and not os.environ.get("REGRESS_PROPS"):
    json.dump(dict(sorted(results.items())), open(corpus + "/RESULTS.json", "w"), indent=1)
print(("refactorings with an alarm:" if mode == "refactors" else "mismatches:"), bad, "of", len(results))
