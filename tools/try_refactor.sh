#!/bin/sh
# Maintainer tool: apply one behaviour-preserving refactoring to /repo, run every registered check (quick, with the
# quick self-test subset), undo.  Any non-zero exit is a false alarm (1) or a brittle analysis (2).
d=$1
cd /verif
if ! git -C /repo diff --quiet; then echo "/repo is dirty: refusing"; exit 2; fi
git -C /repo apply "$d/patch.diff" || { echo "patch does not apply"; exit 2; }
trap 'git -C /repo checkout -- . ; git -C /repo clean -fdq -- linear_operator >/dev/null 2>&1' EXIT
bad=0
for id in $(/venv/bin/python -c "import json;print(' '.join(c['property_id'] for c in json.load(open('MANIFEST.json'))['checks']))"); do
  out=$(./check $id --tier quick 2>&1); c=$?
  if [ $c -ne 0 ]; then bad=1; echo "== $id exit=$c"; echo "$out" | grep -E "^\S+:[0-9]+: \[|^ANALYSIS-ERROR|^VIOLATION" | cut -c1-330 | head -6; fi
done
[ $bad -eq 0 ] && echo "all 14 checks silent"
exit 0
