#!/venv/bin/python
"""Maintainer tool: compare the findings of ./check <ID> on the pinned base tree (/tmp/lo_base worktree) and on
/repo, and merge them into known_findings.json: gone -> fixed:<commit>, still present -> known.
usage: merge_known.py <ID> '<json: {rule-or-substring: commit}>'   (never run by a check)"""
import json, subprocess, sys, glob, shutil, os
prop = sys.argv[1]
commits = json.loads(sys.argv[2]) if len(sys.argv) > 2 else {}
def run(root):
    shutil.rmtree(f"/verif/out/{prop}", ignore_errors=True)
    subprocess.run(["/verif/check", prop, "--no-selftest", "--root", root], capture_output=True)
    out = {}
    for p in glob.glob(f"/verif/out/{prop}/*.json"):
        d = json.load(open(p)); out[d["key"]] = d
    shutil.rmtree(f"/verif/out/{prop}", ignore_errors=True)
    return out
base, cur = run("/tmp/lo_base"), run("/repo")
kf = json.load(open("/verif/known_findings.json"))
have = {e["key"] for e in kf["findings"]}
for k, d in sorted({**base, **cur}.items()):
    if k in have:
        continue
    what = d["message"].split("] ", 1)[-1] if d["message"].startswith("[as") else d["message"]
    e = {"property": prop, "rule": d["rule"], "function": d["function"], "key": k, "what": what}
    if k in cur:
        e["status"] = "known"
    else:
        commit = next((c for sub, c in commits.items() if sub in k), None)
        if commit is None:
            print("NO COMMIT FOR", k); continue
        e["status"] = "fixed"; e["commit"] = commit
    kf["findings"].append(e)
    print(e["status"], e.get("commit", ""), k[:150])
json.dump(kf, open("/verif/known_findings.json", "w"), indent=1)
