#!/venv/bin/python
"""Maintainer tool: re-apply every seeded change under /verif/seeded to /repo (one at a time, reverted afterwards), run
all registered checks (quick, no self-test) and compare with the recorded verdict.  Writes /verif/seeded/RESULTS.json.
Never run by a registered check."""
import json, os, subprocess, sys, glob
from concurrent.futures import ThreadPoolExecutor

os.chdir("/verif")
props = [c["property_id"] for c in json.load(open("MANIFEST.json"))["checks"]]
if subprocess.run(["git", "-C", "/repo", "diff", "--quiet"]).returncode != 0:
    sys.exit("/repo is dirty")
results = {}
bad = 0
for d in sorted(glob.glob("/verif/seeded/C*-*/")):
    sid = os.path.basename(d.rstrip("/"))
    meta = json.load(open(d + "meta.json"))
    own = meta["property"]
    subprocess.run(["git", "-C", "/repo", "apply", d + "patch.diff"], check=True)
    try:
        codes = {}
        rules = {}

        def one(p):
            return p, subprocess.run(["./check", p, "--tier", "quick", "--no-selftest"], capture_output=True, text=True)

        with ThreadPoolExecutor(14) as ex:
            outs = list(ex.map(one, props))
        for p, r in outs:
            codes[p] = r.returncode
            if r.returncode == 1:
                rules[p] = sorted({ln.split("[", 1)[1].split("]", 1)[0] for ln in r.stdout.splitlines() if ": [" in ln and not ln.startswith("KNOWN")})
    finally:
        subprocess.run(["git", "-C", "/repo", "checkout", "--", "."], check=True)
    want = meta["check_verdict"]["result"]
    got = "caught" if codes[own] == 1 else ("analysis-error" if codes[own] == 2 else "missed")
    others = {p: c for p, c in codes.items() if p != own and c != 0}
    ok = (got == want) and not any(c == 2 for c in codes.values())
    bad += 0 if ok else 1
    results[sid] = {"property": own, "recorded": want, "now": got, "own_rules": rules.get(own, []),
                    "caught_by_other_checks": {p: rules.get(p, []) for p, c in others.items() if c == 1},
                    "analysis_errors": [p for p, c in codes.items() if c == 2]}
    print(("ok  " if ok else "DIFF"), sid, got, rules.get(own, []), {p: rules.get(p) for p in others})
json.dump(results, open("/verif/seeded/RESULTS.json", "w"), indent=1)
print("mismatches:", bad)
