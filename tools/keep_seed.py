#!/venv/bin/python
"""Maintainer tool: copy a confirmed seeded change into /verif/seeded/<ID>-<n>/ and record the verdict.
Usage: keep_seed.py <ID> <n> <caught|missed|analysis-error> "<rule(s) / reason>" [--strengthened "what was added"]"""
import json, os, shutil, sys

pid, n, verdict, why = sys.argv[1:5]
extra = sys.argv[6] if len(sys.argv) > 6 and sys.argv[5] == "--strengthened" else None
src = f"/tmp/seed_out/{pid}/{n}"
dst = f"/verif/seeded/{pid}-{n}"
os.makedirs(dst, exist_ok=True)
for f in ("patch.diff", "demo.py"):
    shutil.copy(os.path.join(src, f), os.path.join(dst, f))
meta = json.load(open(os.path.join(src, "meta.json")))
meta["confirmed_by_main_session"] = {
    "patch_applies_to": "cornellius-gp/linear_operator working tree at /repo HEAD (3c1ba8a)",
    "demo_on_clean_tree": "OK", "demo_on_patched_tree": "PROPERTY BROKEN",
    "pinned_suite_with_patch": "4905 / 4905 stable tests pass (tools/confirm_seed.sh ... full)",
}
meta["check_verdict"] = {"result": verdict, "detail": why}
if extra:
    meta["check_verdict"]["strengthened"] = extra
json.dump(meta, open(os.path.join(dst, "meta.json"), "w"), indent=1)
print("kept", dst, verdict)
