#!/bin/sh
# Maintainer tool: apply one patch (ABSOLUTE path) to /repo, run every registered check (quick, no self-test) in parallel
# with its output redirected to a scratch directory (VERIF_SCRATCH: /verif/evidence is not rewritten), undo the patch.
# Usage: checks_on_patch.sh /abs/path/patch.diff     Prints `<id> exit=<c> | <first finding>` per check.
patch=$1
cd /verif
if ! git -C /repo diff --quiet; then echo "/repo is dirty: refusing"; exit 2; fi
git -C /repo apply "$patch" || { echo "patch does not apply"; exit 2; }
trap 'git -C /repo checkout -- . ; git -C /repo clean -fdq -- linear_operator >/dev/null 2>&1; rm -rf /tmp/cop_$$' EXIT
mkdir -p /tmp/cop_$$
for id in $(/venv/bin/python -c "import json;print(' '.join(c['property_id'] for c in json.load(open('MANIFEST.json'))['checks']))"); do
  ( VERIF_SCRATCH=/tmp/cop_$$/$id ./check $id --tier quick --no-selftest > /tmp/cop_$$/$id.log 2>&1
    echo "$id exit=$? | $(grep -E '^\S+:[0-9]+: \[' /tmp/cop_$$/$id.log | head -2 | cut -c1-260 | tr '\n' ' ')" ) &
done
wait
