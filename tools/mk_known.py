#!/venv/bin/python
"""Maintainer tool (never run by a check): turn the replay files of the last run of ./check <ID>
into known-findings entries.  usage: mk_known.py <ID> <status> [<what-prefix>]  -> prints JSON entries"""
import glob, json, sys
prop, status = sys.argv[1], sys.argv[2]
out = []
for p in sorted(glob.glob(f"/verif/out/{prop}/*.json"), key=lambda s: int(s.split("/")[-1][:-5])):
    d = json.load(open(p))
    e = {"property": prop, "status": status, "rule": d["rule"], "function": d["function"], "key": d["key"],
         "what": d["message"]}
    if status.startswith("fixed"):
        e["commit"] = sys.argv[3]
    out.append(e)
print(json.dumps(out, indent=1))
