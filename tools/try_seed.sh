#!/bin/sh
# Maintainer tool: apply one seeded change to /repo, run every registered check (own property: real quick + thorough
# commands; the others: quick without self-test), undo the change.  Usage: try_seed.sh <dir with patch.diff> [PROP]
d=$1
prop=${2:-$(/venv/bin/python -c "import json,sys;print(json.load(open('$d/meta.json'))['property'])")}
cd /verif
if ! git -C /repo diff --quiet; then echo "/repo is dirty: refusing"; exit 2; fi
git -C /repo apply "$d/patch.diff" || { echo "patch does not apply"; exit 2; }
trap 'git -C /repo checkout -- . ; git -C /repo clean -fdq -- linear_operator >/dev/null 2>&1' EXIT
for tier in quick thorough; do
  out=$(./check $prop --tier $tier 2>&1); c=$?
  echo "== own $prop $tier exit=$c"
  echo "$out" | grep -E "^\S+:[0-9]+: \[|^VIOLATION|^ANALYSIS-ERROR" | grep -v "self-test variant" | cut -c1-400 | head -12
done
for id in $(/venv/bin/python -c "import json;print(' '.join(c['property_id'] for c in json.load(open('MANIFEST.json'))['checks']))"); do
  [ "$id" = "$prop" ] && continue
  out=$(./check $id --tier quick --no-selftest 2>&1); c=$?
  [ $c -ne 0 ] && { echo "== other $id exit=$c"; echo "$out" | grep -E "^\S+:[0-9]+: \[|^ANALYSIS-ERROR" | cut -c1-300 | head -4; }
done
exit 0
