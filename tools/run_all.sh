#!/bin/sh
# Maintainer tool: run every registered check at the given tier (default quick) and print one status line each.
tier=${1:-quick}
cd /verif
rc=0
for id in $(/venv/bin/python -c "import json;print(' '.join(c['property_id'] for c in json.load(open('MANIFEST.json'))['checks']))"); do
  out=$(./check $id --tier $tier 2>&1); c=$?
  echo "$id exit=$c $(echo "$out" | grep -c '^KNOWN-FINDING') known $(echo "$out" | grep -c '^VIOLATION') violations | $(echo "$out" | tail -1 | cut -c1-150)"
  [ $c -ne 0 ] && rc=1
done
exit $rc
