#!/bin/sh
# Maintainer tool: confirm_seed.sh ... full for a list of seed dirs, sequentially, in its own scratch worktree.
# Usage: confirm_batch.sh <worktree> <logfile> <seed dir>...
w=$1; log=$2; shift 2
[ -d "$w" ] || git -C /repo worktree add --detach "$w" HEAD -q
for d in "$@"; do
  echo "### $d $(date +%H:%M:%S)" >> "$log"
  /verif/tools/confirm_seed.sh "$d" "$w" full >> "$log" 2>&1
done
echo "### DONE $(date +%H:%M:%S)" >> "$log"
